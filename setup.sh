#!/bin/sh
# Builds /verif/.venv = overlay of /venv (repo deps) + crosshair-tool from the offline wheelhouse.
# Idempotent; every check calls it when .venv is missing.
set -e
HERE="$(cd "$(dirname "$0")" && pwd)"
V="$HERE/.venv"
if [ -x "$V/bin/python" ] && "$V/bin/python" -c "import crosshair, z3, yaml" 2>/dev/null; then
    exit 0
fi
rm -rf "$V"
/venv/bin/python -m venv "$V"
SP="$("$V/bin/python" -c 'import sysconfig; print(sysconfig.get_paths()["purelib"])')"
printf '%s\n' "/venv/lib/python3.12/site-packages" > "$SP/_verif_overlay.pth"
PIP_NO_INDEX=1 "$V/bin/pip" install -q --no-index --find-links /opt/veriftools/wheels crosshair-tool >/dev/null
"$V/bin/python" -c "import crosshair, z3; print('verif venv ready: crosshair', crosshair.__version__ if hasattr(crosshair,'__version__') else '', 'z3', z3.get_version_string())"
