#!/bin/sh
# tools/seed_recheck.sh <seed-id> <ID> [<ID>...] : re-evaluate one kept seeded change against the given checks (quick tier) and merge the result into its meta.json
cd "$(dirname "$0")/.."
sid=$1; shift
prop=$(python3 -c "import json;print(json.load(open('seeded/$sid/meta.json'))['property'])")
python3 tools/seed_eval.py seeded/$sid/patch.diff seeded/$sid/demo.py "$@" > /tmp/seed-recheck-$sid.json 2>/tmp/seed-recheck-$sid.err && python3 tools/seed_keep.py /tmp/seed-recheck-$sid.json $sid $prop
rm -f /tmp/seed-recheck-$sid.json /tmp/seed-recheck-$sid.err
