#!/bin/sh
# tools/run_all.sh [quick|thorough] [ids...] : run checks sequentially, one log per property under /tmp/fvsym-logs
TIER=${1:-quick}; shift
IDS=${@:-C01 C02 C03 C04 C05 C06 C07 C08 C09 C10 C11 C12 C13 C14 C15 C16 C17 C18 C19 C20}
mkdir -p /tmp/fvsym-logs
cd "$(dirname "$0")/.."
for p in $IDS; do
  ./check $p --tier $TIER > /tmp/fvsym-logs/$p.$TIER.log 2>&1
  echo "$p exit=$? $(tail -n 1 /tmp/fvsym-logs/$p.$TIER.log | cut -c1-230)"
done
