#!/usr/bin/env python3
"""Runs /repo's pinned suite and compares the passing set with /root/.vp/BASELINE.json (stable_pass)."""
import json, subprocess, sys, tempfile, os, xml.etree.ElementTree as ET
base = set(json.load(open("/root/.vp/BASELINE.json"))["stable_pass"])
with tempfile.TemporaryDirectory() as d:
    x = os.path.join(d, "j.xml")
    subprocess.run(["/venv/bin/python", "-m", "pytest", "-q", "-p", "no:cacheprovider", "--timeout=900",
                    "--continue-on-collection-errors", "--junitxml=" + x], cwd="/repo", capture_output=True)
    passed = set()
    for tc in ET.parse(x).getroot().iter("testcase"):
        if not any(c.tag in ("failure", "error", "skipped") for c in tc):
            passed.add("%s::%s" % (tc.get("classname"), tc.get("name")))
missing = sorted(base - passed)
print("baseline %d, passed now %d, baseline tests no longer passing: %d" % (len(base), len(passed), len(missing)))
for m in missing:
    print("  LOST", m)
sys.exit(1 if missing else 0)
