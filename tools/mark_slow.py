#!/usr/bin/env python3
"""tools/mark_slow.py <ID> <seconds>: obligations slower than the threshold in the last run move to the thorough tier only
(recorded in fvsym/slow.json; the quick tier skips them, the thorough tier runs everything)."""
import json, os, sys
HERE = os.path.dirname(os.path.dirname(os.path.abspath(__file__)))
pid, thr = sys.argv[1], float(sys.argv[2])
p = os.path.join(HERE, "fvsym", "slow.json")
slow = json.load(open(p)) if os.path.exists(p) else {}
e = json.load(open(os.path.join(HERE, "evidence", pid + ".json")))
cur = set(slow.get(pid, []))
for r in e["coverage"]["per_obligation"]:
    if (r.get("wall_s") or 0) > thr:
        cur.add(r["name"])
slow[pid] = sorted(cur)
json.dump(slow, open(p, "w"), indent=1)
print(pid, "thorough-only obligations:", len(cur))
