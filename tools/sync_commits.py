#!/usr/bin/env python3
"""Refresh the commit hashes of 'fixed' findings from /repo's history (matched by commit subject)."""
import json, os, subprocess, re
HERE = os.path.dirname(os.path.dirname(os.path.abspath(__file__)))
SUBJ = {
 "F01": "union/xor co-iteration no longer appends", "F02": "mixed tuple arity no longer fails", "F03": "Fiber.project on a fiber holding only explicit defaults",
 "F04": "__setitem__ checks coordinate order for negative", "F05": "updateCoords(depth>0) updates every sub-fiber", "F06": "updatePayloads writes each new payload",
 "F08": "CoordPayload <<= assigns", "F09": "division on CoordPayload", "F10": "f *= g leaves f with the content", "F12": "uncompress works on an all-default",
 "F13": "fromYAMLfile keeps the tensor's name", "F15": "splitting with a halo no longer crashes",
}
log = subprocess.check_output(["git", "-C", "/repo", "log", "--format=%h %s"]).decode().splitlines()
p = os.path.join(HERE, "known_findings.json")
k = json.load(open(p))
for f in k["findings"]:
    if f["status"] == "fixed":
        key = SUBJ.get(f["id"]) or f.get("subject")
        hit = [l.split()[0] for l in log if key and key in l]
        assert len(hit) == 1, (f["id"], hit)
        f["commit"] = hit[0]
        f["line"] = re.sub(r"(fixed: property=C\d+ )\S+", r"\g<1>" + hit[0], f["line"])
json.dump(k, open(p, "w"), indent=1)
print("synced", sum(1 for f in k["findings"] if f["status"] == "fixed"), "fixed entries")
