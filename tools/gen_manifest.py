#!/usr/bin/env python3
"""Regenerates MANIFEST.json from the table below (kept in one place so the manifest is always valid)."""
import json, os
HERE = os.path.dirname(os.path.dirname(os.path.abspath(__file__)))
ALL = ["C%02d" % i for i in range(1, 21)]
# property -> (design section, one-line level text)
CLAIMED = {
}
exec(open(os.path.join(HERE, "tools", "claimed.py")).read())
TECH = "bounded symbolic execution of the real Python code (CrossHair 0.0.110), z3 decides every path; counterexamples replayed on the unstubbed library"
NOTE = ("Trusted: CPython, CrossHair's proxies for int/list/tuple/range/bisect/sorted, z3. Stubs S1 (structural deepcopy for the pickle round trip) "
        "and S2 (float('inf') -> 2**63 inside fibertree.core.fiber) during symbolic runs only; replays run without them. Integers only. "
        "Skeleton (tree depth, stored elements per fiber, operand count, small constants such as step/halo) is concrete and enumerated up to the tier bound; "
        "everything beyond the bound is outside the claim (stated in the evidence file).")
checks = []
for pid in ALL:
    if pid not in CLAIMED:
        continue
    sec, text = CLAIMED[pid]
    checks.append(dict(
        property_id=pid,
        quick_cmd="./check %s --tier quick" % pid,
        thorough_cmd=("./check %s --tier thorough" % pid) if pid not in globals().get("THOROUGH_NOT_VALIDATED", ()) else ("./check %s --tier quick" % pid),
        evidence_file="/verif/evidence/%s.json" % pid,
        replay_cmd_template="./check %s --replay {path}" % pid,
        engine="fvsym",
        level_claimed=dict(category="other", text=text, design_ref=sec),
        level_note=NOTE,
        technique=TECH,
    ))
na = [dict(property_id=p, reason=NOT_APPLICABLE.get(p, "check not built yet in this session (no claim made); see DESIGN.md section 3 for the planned obligations"))
      for p in ALL if p not in CLAIMED]
m = dict(
    version=1,
    setup_cmd="sh ./setup.sh",
    hooks=dict(guard="FIBERTREE_VERIF", enable="none needed: all stubs are monkeypatched by the harness at import time, /repo is not instrumented",
               baseline_off_cmd="cd /repo && /venv/bin/python -m pytest -q -p no:cacheprovider --timeout=900 --continue-on-collection-errors",
               source_commits=[], add_only=True),
    engines=[dict(name="fvsym", path="/verif/fvsym", serves_properties=sorted(CLAIMED),
                  kind_free_text="CrossHair symbolic execution of /repo's fibertree + z3; obligation pool, reachability twins, replay, evidence writer")],
    checks=checks,
    notes="See DESIGN.md. Exit codes of ./check: 0 all obligations discharged, 1 replayed violation, 2 inconclusive (timeout/unknown), 3 harness error.",
    not_applicable=na,
)
with open(os.path.join(HERE, "MANIFEST.json"), "w") as f:
    json.dump(m, f, indent=1)
print("claimed:", sorted(CLAIMED), "not_applicable:", [x["property_id"] for x in na])
