#!/usr/bin/env python3
"""tools/seed_table.py : markdown table of the seeded changes kept under seeded/ and which checks report them (for DESIGN.md 6.4)."""
import glob, json, os
HERE = os.path.dirname(os.path.dirname(os.path.abspath(__file__)))
print("| seeded change | property | file(s) | reported by (quick tier) | first refuted obligation |")
print("|---|---|---|---|---|")
for p in sorted(glob.glob(os.path.join(HERE, "seeded", "*", "meta.json"))):
    m = json.load(open(p))
    det = m.get("detection", {})
    hit = [k for k, v in sorted(det.items()) if v.get("violations")]
    miss = [k for k, v in sorted(det.items()) if not v.get("violations")]
    first = ""
    for k in hit:
        fv = det[k].get("first_violations") or []
        if fv:
            first = fv[0].split(" args=")[0].replace("obligation=", "").replace("|", "\\|")
            break
    files = ", ".join(os.path.basename(f) for f in m.get("files_changed", []))
    print("| %s | %s | %s | %s%s | `%s` |" % (m["id"], m["property"], files, ", ".join(hit) if hit else "**none**",
                                          (" (not by " + ", ".join(miss) + ")") if miss and hit else "", first))
