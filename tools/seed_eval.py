#!/usr/bin/env python3
"""tools/seed_eval.py <patch.diff> <demo.py> <ID> [<ID>...] [--tier quick] [--only GLOB]
Development tool: evaluates one seeded change in a scratch copy of /repo (FVSYM_REPO), never touching /repo:
 1. the patch applies to /repo's HEAD, 2. the pinned tests still pass, 3. the demo passes without and fails with the change,
 4. which of the given checks report a VIOLATION.  Prints a JSON summary."""
import json, os, shutil, subprocess, sys, tempfile, xml.etree.ElementTree as ET
args = sys.argv[1:]
tier, only = "quick", None
if "--tier" in args:
    i = args.index("--tier"); tier = args[i + 1]; del args[i:i + 2]
if "--only" in args:
    i = args.index("--only"); only = args[i + 1]; del args[i:i + 2]
patch, demo, ids = os.path.abspath(args[0]), os.path.abspath(args[1]), args[2:]
HERE = os.path.dirname(os.path.dirname(os.path.abspath(__file__)))
wt = tempfile.mkdtemp(prefix="fvsym-seed-")
res = {"patch": patch, "demo": demo}
try:
    subprocess.run(["git", "-C", "/repo", "worktree", "add", "-q", "--detach", wt, "HEAD"], check=True)
    def run_demo():
        return subprocess.run(["/venv/bin/python", demo], cwd=wt, capture_output=True, text=True, timeout=600, env=dict(os.environ, PYTHONPATH=wt, PYTHONDONTWRITEBYTECODE="1")).returncode
    res["demo_clean_exit"] = run_demo()
    a = subprocess.run(["git", "-C", wt, "apply", patch], capture_output=True, text=True)
    res["applies"] = a.returncode == 0
    if not res["applies"]:
        res["apply_err"] = a.stderr[-300:]
    else:
        res["demo_patched_exit"] = run_demo()
        base = set(json.load(open("/root/.vp/BASELINE.json"))["stable_pass"])
        x = os.path.join(wt, ".junit.xml")
        subprocess.run(["/venv/bin/python", "-m", "pytest", "-q", "-p", "no:cacheprovider", "--timeout=900", "--continue-on-collection-errors", "--junitxml=" + x],
                       cwd=wt, capture_output=True)
        passed = set()
        for tc in ET.parse(x).getroot().iter("testcase"):
            if not any(c.tag in ("failure", "error", "skipped") for c in tc):
                passed.add("%s::%s" % (tc.get("classname"), tc.get("name")))
        res["tests_lost"] = sorted(base - passed)
        res["checks"] = {}
        env = dict(os.environ, FVSYM_REPO=wt)
        for pid in ids:
            cmd = [os.path.join(HERE, "check"), pid, "--tier", tier] + (["--only", only] if only else [])
            p = subprocess.run(cmd, cwd=HERE, env=env, capture_output=True, text=True)
            viol = [l for l in p.stdout.splitlines() if l.startswith("VIOLATION")]
            summ = [l for l in p.stdout.splitlines() if l.startswith("SUMMARY")]
            det = [l.strip() for l in p.stdout.splitlines() if l.startswith("  obligation=")][:3]
            res["checks"][pid] = {"exit": p.returncode, "violations": len(viol), "summary": summ[-1][:200] if summ else p.stdout[-300:] + p.stderr[-300:], "first": det}
finally:
    subprocess.run(["git", "-C", "/repo", "worktree", "remove", "--force", wt], capture_output=True)
    shutil.rmtree(wt, ignore_errors=True)
print(json.dumps(res, indent=1))
