#!/usr/bin/env python3
"""tools/seed_keep.py <eval.json> <seed-id> <property> [notes-file]
Development tool: files one confirmed seeded change under /verif/seeded/<seed-id>/ (patch.diff, demo.py, meta.json).
<eval.json> is the output of tools/seed_eval.py; the change is kept only when the evaluation confirmed that the patch applies,
the pinned tests still pass, and the demonstration passes without and fails with the change."""
import json, os, shutil, sys
ev, sid, prop = sys.argv[1:4]
notes = sys.argv[4] if len(sys.argv) > 4 else None
HERE = os.path.dirname(os.path.dirname(os.path.abspath(__file__)))
d = json.load(open(ev))
ok = d.get("applies") and d.get("demo_clean_exit") == 0 and d.get("demo_patched_exit") not in (0, None) and not d.get("tests_lost")
if not ok:
    print("NOT CONFIRMED", sid, {k: d.get(k) for k in ("applies", "demo_clean_exit", "demo_patched_exit", "tests_lost")})
    sys.exit(1)
out = os.path.join(HERE, "seeded", sid)
os.makedirs(out, exist_ok=True)
for src, dst in ((d["patch"], os.path.join(out, "patch.diff")), (d["demo"], os.path.join(out, "demo.py"))):
    if os.path.abspath(src) != os.path.abspath(dst):
        shutil.copy(src, dst)
meta_p = os.path.join(out, "meta.json")
meta = json.load(open(meta_p)) if os.path.exists(meta_p) else {}
meta.update({
    "id": sid,
    "property": prop,
    "files_changed": sorted({l[6:].strip() for l in open(d["patch"]) if l.startswith("+++ b/")}),
    "needs_to_manifest": (open(notes).read().strip() if notes and os.path.exists(notes) else meta.get("needs_to_manifest", "")),
    "confirmed": {
        "how": "tools/seed_eval.py in a scratch git worktree of /repo HEAD (removed afterwards): git apply; pinned suite compared with /root/.vp/BASELINE.json stable_pass; "
               "demo.py run with PYTHONPATH=<worktree> before and after the change",
        "patch_applies": True, "pinned_tests_lost": 0, "demo_exit_clean": d["demo_clean_exit"], "demo_exit_changed": d["demo_patched_exit"],
    },
})
det = meta.setdefault("detection", {})
for pid, c in d.get("checks", {}).items():
    det[pid] = {"tier": "quick", "exit": c["exit"], "violations": c["violations"], "first_violations": c.get("first", [])[:2]}
json.dump(meta, open(meta_p, "w"), indent=1)
print("kept", sid, {p: (v["exit"], v["violations"]) for p, v in det.items()})
