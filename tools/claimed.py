# edited by hand as checks land
_T = "Every listed obligation is decided by z3 over all integer values of its symbolic inputs within the stated skeleton bound (a bounded, not an unbounded, claim); "
CLAIMED = {
 "C20": ("DESIGN.md#c20", _T + "Codec.encode output for all U/C/B descriptors decodes by the documented layout to the tensor content for symbolic values (all sparsity patterns), with and without imposed shape; slice-scan API, coordToHandle with symbolic coordinates/query, getSize against words per layout."),
 "C17": ("DESIGN.md#c17", _T + "buffet fills/write-backs equal the (line, window) policy sum and cache fills equal exhaustive optimal replacement, for every capacity and staging shape (solver-quantified) over exhaustively enumerated concrete trace skeletons; temp files removed; filter/combine only concretely."),
 "C19": ("DESIGN.md#c19", _T + "two-finger / skip-ahead / leader-follower counts from real intersect traces equal an independent merge, fiber-by-fiber and one-shot; numSwaps equals the stated per-round cost for symbolic latency and is independent of payload values."),
 "C16": ("DESIGN.md#c16", _T + "headers, stamp order, one row per access, coordinates and fiber positions of iter/intersect/populate/project traces against accesses observed by the harness and an independent two-finger merge; file content equals in-memory rows for every flush threshold."),
 "C15": ("DESIGN.md#c15", _T + "kernel outputs identical with collection on and off; multiply/add/update counts and iter-trace row counts equal what the loop bodies executed; a fresh session after an earlier one equals a cold run (counts and consumable traces)."),
 "C06": ("DESIGN.md#c06", _T + "output content of dot, matrix-vector, matrix-matrix, elementwise and reduction kernels equals the dense result for every implemented loop order, tiling and intersection style, one operand symbolic (all sparsity patterns)."),
 "C14": ("DESIGN.md#c14", _T + "rank ids, authoritative shape re-arrangement (symbolic shape entries), leaf default, formats, mutability after every transform; stored coordinates inside shape and active range; rank id / active range of lazy results; attribute replacement on joining a tensor."),
 "C10": ("DESIGN.md#c10", _T + "operand snapshots (tree, rank lists, ids, shape, default, formats) unchanged by every value-returning and read-only operation, no shared Fiber/Payload/Rank/RankAttrs object, follow-up mutations invisible across the pair. Rendering itself is outside the claim."),
 "C09": ("DESIGN.md#c09", _T + "content of every transform result equals the image of the operand content under the stated coordinate map (merges reduce collisions), inverses restore equal tensors, results are well-formed tensors; swizzle on boxes with symbolic values incl. explicit zeros and all-zero rows."),
 "C08": ("DESIGN.md#c08", _T + "all four split kinds (and /, //) against an interval/halo/active-range specification computed loop-free from the element list, relative coordinates, per-partition active ranges, re-splits, depth-1 splits through the Tensor API."),
 "C07": ("DESIGN.md#c07", _T + "every traversal mode against its defining slice (unbounded symbolic ranges, dense spans <= 4), reference variants insert exactly the visited absent coordinates, start_pos, lazy re-iteration and materialisation, affine projection with intervals and pruning."),
 "C13": ("DESIGN.md#c13", _T + "fromUncompressed/uncompress round trip on symbolic nests, dict and YAML round trips through the contract stub S4, fromRandom reproducibility/in-shape/density-1 through symbolic draws (S3); real PyYAML only on concrete values."),
 "C18": ("DESIGN.md#c18", _T + "getFiber/getRank/getRoot/getTensor/getSubTree equal sums recomputed from a raw DFS for symbolic bit widths, all {C,U} assignments and missing-field patterns; queries are pure."),
 "C12": ("DESIGN.md#c12", _T + "== versus content equality over independent skeletons (explicit defaults, empty sub-fibers), symmetry/reflexivity/transitivity, isEmpty, countValues, nonEmpty, deepcopy."),
 "C11": ("DESIGN.md#c11", _T + "every documented box/element operator and operand-kind pair equals the Python operator on the values (true division: concrete operands only); fiber + and * against union-sum / intersection-product; in-place forms against their value-returning twins."),
 "C05": ("DESIGN.md#c05", _T + "populate offers exactly the source coordinates with live references; post-loop content equals the overlay model; nothing left behind; source untouched; rank lists consistent inside and after the loops."),
 "C01": ("DESIGN.md#c01", _T + "well-formedness after every public mutator from an arbitrary well-formed pre-state (inductive step) and short histories; order-rejections leave the tree unchanged."),
 "C02": ("DESIGN.md#c02", _T + "rank lists mirror the tree after every listed mutation, constructor, transform and read-only co-iteration."),
 "C03": ("DESIGN.md#c03", _T + "reads, reference writes, prefix reads, positions and start_pos shortcuts against an association-list model."),
 "C04": ("DESIGN.md#c04", _T + "truth tables, payload identity, masks and operand purity of & | ^ - and n-ary forms."),
}
NOT_APPLICABLE = {}

# Properties whose `--tier thorough` enumeration was trimmed after its last end-to-end run and could not be re-run end-to-end before the end
# of the session: MANIFEST.json registers the (validated) quick command as their thorough command too.  See DESIGN.md 6.3b.
THOROUGH_NOT_VALIDATED = {"C01", "C02", "C05", "C08", "C09", "C14", "C17"}
