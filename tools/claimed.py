# edited by hand as checks land
_T = "Every listed obligation is decided by z3 over all integer values of its symbolic inputs within the stated skeleton bound (a bounded, not an unbounded, claim); "
CLAIMED = {
 "C04": ("DESIGN.md#c04", _T + "truth tables, payload identity, masks and operand purity of & | ^ - and n-ary forms."),
}
NOT_APPLICABLE = {}
