from fibertree import Tensor, Fiber
def mk():
    t = Tensor.fromUncompressed(["M", "K"], [[1, 9, 2], [9, 3, 9]], default=9)
    t.setFormat("K", "U"); t.setMutable(True); t.setName("T"); t.setColor("blue")
    return t
t = mk()
print("orig", t.getRankIds(), t.getShape(authoritative=True), t.getDefault(), [t.getFormat(r) for r in t.getRankIds()], t.isMutable())
ops = {
 "swizzle": lambda t: t.swizzleRanks(["K", "M"]),
 "swap": lambda t: t.swapRanks(),
 "splitUniform d0": lambda t: t.splitUniform(1),
 "splitUniform d1": lambda t: t.splitUniform(2, depth=1),
 "splitEqual d1": lambda t: t.splitEqual(1, depth=1),
 "splitNonUniform d0": lambda t: t.splitNonUniform([0, 1]),
 "splitUnEqual d0": lambda t: t.splitUnEqual([1, 1]),
 "flatten": lambda t: t.flattenRanks(),
 "flatten pair": lambda t: t.flattenRanks(coord_style="pair"),
 "flatten linear": lambda t: t.flattenRanks(coord_style="linear"),
 "merge abs": lambda t: t.mergeRanks(coord_style="absolute"),
 "flat-unflat": lambda t: t.flattenRanks().unflattenRanks(),
 "updateCoords": lambda t: t.updateCoords(lambda i, c, p: c + 1),
 "updatePayloads": lambda t: t.updatePayloads(lambda i, c, p: p, depth=1),
 "deepcopy": lambda t: __import__("copy").deepcopy(t),
 "t / 2": lambda t: t / 2,
 "t // 2": lambda t: t // 2,
}
for name, op in ops.items():
    t = mk()
    try:
        r = op(t)
        ids = r.getRankIds()
        fm = []
        for x in ids:
            try: fm.append(r.getFormat(x))
            except Exception as e: fm.append("EXC")
        print(f"{name:20s}", ids, r.getShape(authoritative=True), r.getShape(), r.getDefault(), fm, r.isMutable(), r.getName(), r.getColor())
    except Exception as e:
        print(f"{name:20s}", "EXC", type(e).__name__, str(e)[:80])
