import stubs, io, contextlib
from fibertree import Fiber, Tensor, Payload, Codec
from fibertree.core.metrics import Metrics
import fibertree.codec.formats.compression_format as cf, fibertree.codec.formats.coord_list as cl, fibertree.codec.formats.uncompressed as un, fibertree.codec.formats.bitvector as bv, fibertree.codec.tensor_codec as tc
for m in (cf, cl, un, bv, tc):
    m.print = lambda *a, **k: None

def pop_trace(z0: int, a0: int, a1: int) -> bool:
    """
    pre: 0 <= z0 < 8 and 0 <= a0 < a1 < 8
    post: _
    """
    try: Metrics.endCollect()
    except Exception: pass
    tz = Tensor(rank_ids=["K"], shape=[8]); z = tz.getRoot()
    z.getPayloadRef(z0).__ilshift__(5)
    a = Fiber([a0, a1], [1, 2]); a.getRankAttrs().setId("K")
    Metrics.beginCollect()
    for ty in ("iter", "populate_0", "populate_1", "populate_read_0", "populate_write_0"):
        Metrics.trace("K", type_=ty, consumable=True)
    n = 0
    for c, (zr, av) in z << a:
        zr += av
        n += 1
    tr = {ty: Metrics.consumeTrace("K", ty) for ty in ("iter", "populate_0", "populate_1", "populate_read_0", "populate_write_0")}
    Metrics.endCollect()
    return n == 2 and len(tr["populate_write_0"]) >= 3

def on_off(a0: int, a1: int, b0: int, b1: int, va: int, vb: int) -> bool:
    """
    pre: 0 <= a0 < a1 and 0 <= b0 < b1
    post: _
    """
    try: Metrics.endCollect()
    except Exception: pass
    def run(collect):
        a = Fiber([a0, a1], [va, 2]); a.getRankAttrs().setId("K")
        b = Fiber([b0, b1], [vb, 3]); b.getRankAttrs().setId("K")
        z = Payload(0)
        nm = 0
        if collect:
            Metrics.beginCollect()
            Metrics.trace("K", consumable=True)
        for k, (x, y) in a & b:
            z += x * y; nm += 1
        d = None
        if collect:
            d = Metrics.dump(); Metrics.consumeTrace("K", "iter"); Metrics.endCollect()
        return z.value, nm, d
    z0, n0, _ = run(False)
    z1, n1, d = run(True)
    mul = d.get("Compute", {}).get("payload_mul", 0) if d else 0
    return z0 == z1 and n0 == n1 and mul == n1

class Cache(dict):
    hit_count = 0; miss_count = 0

def scan_c(v0: int, v1: int, v2: int, q: int, c0: int, c1: int, c2: int) -> bool:
    """
    pre: 0 <= c0 < c1 < c2 < 6
    pre: v0 != 0 and v1 != 0 and v2 != 0
    post: _
    """
    t = Tensor.fromFiber(rank_ids=["K"], fiber=Fiber([c0, c1, c2], [v0, v1, v2]), shape=[6])
    codec = Codec(("C",), [True]); out = codec.get_output_dict(["K"]); ot = [[], []]
    codec.encode(-1, t.getRoot(), ["K"], out, ot)
    f = ot[1][0]; f.cache = Cache()
    f.setupSlice(0)
    got = []
    while True:
        h = f.nextInSlice()
        if h is None: break
        got.append((f.handleToCoord(h), f.payloadToValue(f.handleToPayload(h))))
    if got != [(c0, v0), (c1, v1), (c2, v2)]: return False
    h = f.coordToHandle(q)
    cs = [c0, c1, c2]
    exp = None
    for i, c in enumerate(cs):
        if c >= q: exp = i; break
    return h == exp and f.getSize() == 6
