import stubs
from fibertree import Fiber, Tensor, Payload

def and44(a0: int, a1: int, a2: int, a3: int, b0: int, b1: int, b2: int, b3: int) -> bool:
    """
    pre: a0 < a1 < a2 < a3
    pre: b0 < b1 < b2 < b3
    post: _
    """
    a = [a0, a1, a2, a3]; b = [b0, b1, b2, b3]
    got = [c for c, _ in Fiber(a, [1]*4) & Fiber(b, [1]*4)]
    return got == [c for c in a if any(c == d for d in b)]

def union3(a0: int, a1: int, b0: int, b1: int, c0: int, c1: int, va: int, vb: int, vc: int) -> bool:
    """
    pre: a0 < a1 and b0 < b1 and c0 < c1
    post: _
    """
    A = Fiber([a0, a1], [va, 1]); B = Fiber([b0, b1], [vb, 1]); C = Fiber([c0, c1], [vc, 1])
    pa = [c for c, v in [(a0, va), (a1, 1)] if v != 0]
    pb = [c for c, v in [(b0, vb), (b1, 1)] if v != 0]
    pc = [c for c, v in [(c0, vc), (c1, 1)] if v != 0]
    got = [(c, p.value[0]) for c, p in Fiber.union(A, B, C)]
    allc = []
    for c in pa + pb + pc:
        if not any(c == d for d in allc): allc.append(c)
    # sort allc by insertion (selection sort, comparisons only)
    out = []
    rest = list(allc)
    while rest:
        m = rest[0]
        for x in rest[1:]:
            if x < m: m = x
        out.append(m)
        rest = [x for x in rest if x != m]
    if len(got) != len(out): return False
    for (gc, mask), c in zip(got, out):
        if gc != c: return False
        exp = ("A" if any(c == d for d in pa) else "") + ("B" if any(c == d for d in pb) else "") + ("C" if any(c == d for d in pc) else "")
        if mask != exp: return False
    return True

def d3(m0: int, k0: int, n0: int, n1: int, m: int, k: int, n: int, v0: int, v1: int, w: int) -> bool:
    """
    pre: n0 < n1
    post: _
    """
    t = Tensor(rank_ids=["M", "K", "N"])
    t.getPayloadRef(m0, k0, n0).__ilshift__(v0)
    t.getPayloadRef(m0, k0, n1).__ilshift__(v1)
    model = [((m0, k0, n0), v0), ((m0, k0, n1), v1)]
    def look(p):
        for q, v in model:
            if q[0] == p[0] and q[1] == p[1] and q[2] == p[2]: return v
        return 0
    if t.getPayload(m, k, n) != look((m, k, n)): return False
    r = t.getPayloadRef(m, k, n); r += w
    if t.getPayload(m, k, n) != look((m, k, n)) + w: return False
    nf = [len(r_.getFibers()) for r_ in t.ranks]
    # count fibers by DFS
    cnt = [0, 0, 0]
    def walk(f, d):
        cnt[d] += 1
        for p in f.payloads:
            if isinstance(p, Fiber): walk(p, d + 1)
    walk(t.getRoot(), 0)
    return nf == cnt

def mm(a00: int, a01: int, a10: int, a11: int) -> bool:
    """
    post: _
    """
    A = [[a00, a01], [a10, a11]]; B = [[2, 0], [3, 5]]
    a = Tensor.fromUncompressed(["M", "K"], A); b = Tensor.fromUncompressed(["K", "N"], B)
    z = Tensor(rank_ids=["M", "N"], shape=[2, 2])
    for m, (z_n, a_k) in z.getRoot() << a.getRoot():
        for k, (a_val, b_n) in a_k & b.getRoot():
            for n, (z_ref, b_val) in z_n << b_n:
                z_ref += a_val * b_val
    exp = [[sum(A[m][k] * B[k][n] for k in range(2)) for n in range(2)] for m in range(2)]
    got = [[Payload.get(z.getPayload(m, n)) for n in range(2)] for m in range(2)]
    return got == exp
