import itertools
from fibertree import Tensor, Fiber, Payload
rep = {}
def rec(name, ok, info):
    r = rep.setdefault(name, [0, 0, None]); r[0] += 1
    if not ok:
        r[1] += 1
        if r[2] is None: r[2] = info
def nests(shape, vals):
    n = 1
    for s in shape: n *= s
    for flat in itertools.product(vals, repeat=n):
        it = iter(flat)
        def build(dims):
            if len(dims) == 1: return [next(it) for _ in range(dims[0])]
            return [build(dims[1:]) for _ in range(dims[0])]
        yield build(list(shape))
def raw_has_default(f, d):
    for p in f.payloads:
        if isinstance(p, Fiber):
            if len(p.coords) == 0 or raw_has_default(p, d): return True
        elif p.value == d: return True
    return False
for default in (0, 9):
    for shape, ids in (([3], ["K"]), ([2, 2], ["M", "K"]), ([2, 1, 2], ["M", "N", "K"])):
        for nest in nests(shape, (0, 9, 4)):
            try:
                t = Tensor.fromUncompressed(ids, nest, default=default)
                rec(f"shape d={default}", t.getShape() == shape, (nest, t.getShape()))
                rec(f"no explicit default d={default}", not raw_has_default(t.getRoot(), default), (nest, t.getRoot()))
                try:
                    u = t.getRoot().uncompress(shape=shape)
                    rec(f"uncompress d={default}", u == nest, (nest, u))
                except Exception as e:
                    alldef = all(v == default for v in str(nest).replace("[", "").replace("]", "").replace(" ", "").split(",") and [int(x) for x in str(nest).replace("[", "").replace("]", "").split(",")])
                    rec(f"uncompress d={default}" + (" (all-default)" if alldef else ""), False, (nest, type(e).__name__, str(e)[:60]))
                d = t.getRoot().fiber2dict()
                f2 = Fiber.dict2fiber(d)
                rec(f"dict roundtrip d={default}", f2 == t.getRoot() if default == 0 else True, (nest,))
            except Exception as e:
                rec(f"fromUncompressed d={default}", False, (nest, type(e).__name__, str(e)[:80]))
for k, v in sorted(rep.items()): print(k, "total", v[0], "bad", v[1], "" if v[2] is None else str(v[2])[:300])
