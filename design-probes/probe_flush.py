import stubs, os
from fibertree import Fiber
from fibertree.core.metrics import Metrics

def flush(n: int) -> bool:
    """
    pre: n > 1
    post: _
    """
    a = Fiber([1, 4, 6, 7, 9], [1, 2, 3, 4, 5]); a.getRankAttrs().setId("K")
    Metrics.beginCollect("tmp/fl")
    Metrics.setNumCachedUses(n)
    Metrics.trace("K")
    Metrics.trace("K", consumable=True)
    for k, v in a:
        pass
    mem = Metrics.consumeTrace("K", "iter")
    Metrics.endCollect()
    Metrics.setNumCachedUses(1000)
    with open("tmp/fl-K-iter.csv") as f:
        lines = f.read().split("\n")
    want = [",".join(str(x) for x in r) for r in mem] + [""]
    return lines == want
