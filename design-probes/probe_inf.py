def cmp_inf(c: int) -> bool:
    """
    pre: 0 <= c < 100
    post: _
    """
    inf = float("inf")
    return c < inf and not (c >= inf) and min(inf, c + 1) == c + 1
