import itertools, copy
from fibertree import Tensor, Fiber, Payload
from val_xform import rows, build2, content

trees = []
for r0, r1 in itertools.product(rows(), repeat=2):
    f = build2(r0, r1)
    if f is not None: trees.append(((r0, r1), f))
trees.append((("none",), Fiber([], [])))
print(len(trees), "trees")
rep = {}
def rec(name, ok, info):
    r = rep.setdefault(name, [0, 0, None]); r[0] += 1
    if not ok:
        r[1] += 1
        if r[2] is None: r[2] = info
for (da, a), (db, b) in itertools.product(trees, repeat=2):
    ca, cb = content(a), content(b)
    try:
        rec("eq iff content", (a == b) == (ca == cb), (da, db, a == b, ca, cb))
    except Exception as e:
        rec("eq iff content", False, (da, db, "EXC", repr(e)[:80]))
for d, a in trees:
    ca = content(a)
    try: rec("isEmpty", a.isEmpty() == (len(ca) == 0), (d, a.isEmpty(), ca))
    except Exception as e: rec("isEmpty", False, (d, repr(e)[:80]))
    try: rec("countValues", a.countValues() == len(ca), (d, a.countValues(), ca))
    except Exception as e: rec("countValues", False, (d, repr(e)[:80]))
    try:
        ne = a.nonEmpty()
        def clean(f):
            for p in f.payloads:
                if isinstance(p, Fiber):
                    if len(p.coords) == 0 or not clean(p): return False
                elif p.value == 0: return False
            return True
        rec("nonEmpty", content(ne) == ca and clean(ne) and (ne == a), (d, ne, clean(ne)))
    except Exception as e: rec("nonEmpty", False, (d, repr(e)[:80]))
    try:
        cp = copy.deepcopy(a); rec("deepcopy eq", cp == a and cp is not a, (d,))
    except Exception as e: rec("deepcopy eq", False, (d, repr(e)[:80]))
for k, v in rep.items(): print(k, "total", v[0], "bad", v[1], "" if v[2] is None else str(v[2])[:300])
