import stubs
from fibertree import Fiber, Tensor, Payload
from fibertree.core.metrics import Metrics

def split_equal(c0: int, c1: int, c2: int, c3: int) -> bool:
    """
    pre: 0 <= c0 < c1 < c2 < c3 < 100
    post: _
    """
    f = Fiber([c0, c1, c2, c3], [1, 2, 3, 4], shape=100)
    s = f.splitEqual(2)
    if s.coords != [0, c2]: return False
    if s.payloads[0].coords != [c0, c1]: return False
    if s.payloads[1].coords != [c2, c3]: return False
    return True

def metrics_and(a0: int, a1: int, b0: int, b1: int) -> bool:
    """
    pre: 0 <= a0 < a1 < 50
    pre: 0 <= b0 < b1 < 50
    post: _
    """
    a = Fiber([a0, a1], [1, 2]); a.getRankAttrs().setId("K")
    b = Fiber([b0, b1], [3, 4]); b.getRankAttrs().setId("K")
    Metrics.beginCollect()
    Metrics.trace("K", type_="intersect_0", consumable=True)
    Metrics.trace("K", type_="intersect_1", consumable=True)
    Metrics.trace("K", type_="iter", consumable=True)
    n = 0
    for k, (x, y) in a & b:
        n += 1
    t0 = Metrics.consumeTrace("K", "intersect_0")
    t1 = Metrics.consumeTrace("K", "intersect_1")
    ti = Metrics.consumeTrace("K", "iter")
    Metrics.endCollect()
    # rows of t0 after header: coords of a visited, positions 0..  
    rows0 = t0[1:]
    for i, r in enumerate(rows0):
        if r[1] != [a0, a1][i]: return False
        if r[2] != i: return False
    return len(rows0) >= 1
