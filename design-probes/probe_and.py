from typing import Tuple
from fibertree import Fiber

def and_coords(a0: int, a1: int, a2: int, b0: int, b1: int, b2: int) -> bool:
    """
    pre: a0 < a1 < a2
    pre: b0 < b1 < b2
    post: _
    """
    a = Fiber([a0, a1, a2], [1, 2, 3])
    b = Fiber([b0, b1, b2], [4, 5, 6])
    got = [c for c, _ in a & b]
    sa = [a0, a1, a2]
    sb = [b0, b1, b2]
    exp = [c for c in sa if c in sb]
    return got == exp
