import stubs
from fibertree import Fiber, Tensor, Payload

def dense(t, shape):
    r = t.getRoot()
    return [Payload.get(r.getPayload(i)) for i in range(shape)]

def mv(a00: int, a01: int, a02: int, a10: int, a11: int, a12: int) -> bool:
    """
    post: _
    """
    A = [[a00, a01, a02], [a10, a11, a12]]
    Bv = [2, 0, 3]
    a = Tensor.fromUncompressed(["M", "K"], A)
    b = Tensor.fromUncompressed(["K"], Bv)
    exp = [sum(A[m][k] * Bv[k] for k in range(3)) for m in range(2)]
    # order M,K
    z = Tensor(rank_ids=["M"], shape=[2])
    for m, (z_ref, a_k) in z.getRoot() << a.getRoot():
        for k, (a_val, b_val) in a_k & b.getRoot():
            z_ref += a_val * b_val
    if dense(z, 2) != exp: return False
    # order K,M  (swizzle A)
    a2 = a.swizzleRanks(["K", "M"])
    z2 = Tensor(rank_ids=["M"], shape=[2])
    for k, (a_m, b_val) in a2.getRoot() & b.getRoot():
        for m, (z_ref, a_val) in z2.getRoot() << a_m:
            z_ref += a_val * b_val
    if dense(z2, 2) != exp: return False
    # tiled K by 2
    a3 = a.splitUniform(2, depth=1)
    b3 = b.splitUniform(2)
    z3 = Tensor(rank_ids=["M"], shape=[2])
    for m, (z_ref, a_k1) in z3.getRoot() << a3.getRoot():
        for k1, (a_k0, b_k0) in a_k1 & b3.getRoot():
            for k0, (a_val, b_val) in a_k0 & b_k0:
                z_ref += a_val * b_val
    if dense(z3, 2) != exp: return False
    for zz in (z, z2, z3):
        for p in zz.getRoot().payloads:
            if p.value == 0: return False
    return True
