import stubs
from fibertree import Fiber

def split_uniform(c0: int, c1: int, c2: int, step: int) -> bool:
    """
    pre: 0 <= c0 < c1 < c2 < 12
    pre: 1 <= step <= 12
    post: _
    """
    f = Fiber([c0, c1, c2], [1, 2, 3], shape=12)
    s = f.splitUniform(step)
    # flatten back
    got = []
    for uc, lf in zip(s.coords, s.payloads):
        if uc % step != 0:
            return False
        for c, p in zip(lf.coords, lf.payloads):
            if not (uc <= c < uc + step):
                return False
            got.append(c)
    return got == [c0, c1, c2]

def split_uniform_witness(c0: int, c1: int, c2: int, step: int) -> bool:
    """
    pre: 0 <= c0 < c1 < c2 < 12
    pre: 1 <= step <= 12
    post: not _
    """
    return split_uniform(c0, c1, c2, step)

def split_uniform_halo(c0: int, c1: int, step: int, pre: int, post: int, a0: int, a1: int) -> bool:
    """
    pre: 0 <= c0 < c1 < 12
    pre: 1 <= step <= 12
    pre: 0 <= pre <= 3 and 0 <= post <= 3
    pre: 0 <= a0 < a1 <= 12
    post: _
    """
    f = Fiber([c0, c1], [1, 2], shape=12, active_range=(a0, a1))
    s = f.splitUniform(step, pre_halo=pre, post_halo=post)
    # spec: element c appears in partition P (multiple of step, intersecting active range) iff P - pre <= c < P + step + post
    # and c in [a0 - pre, a1 + post)
    got = set()
    last = None
    for uc, lf in zip(s.coords, s.payloads):
        if last is not None and uc <= last:
            return False
        last = uc
        for c in lf.coords:
            got.add((uc, c))
    exp = set()
    for c in (c0, c1):
        P = 0
        while P < 12 + 4:
            if P + step > a0 and P < a1 and P - pre <= c < P + step + post and a0 - pre <= c < a1 + post:
                exp.add((P, c))
            P += step
    return got == exp
