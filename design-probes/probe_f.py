import stubs
from fibertree import Fiber, Tensor, Payload, CoordPayload

def content(f, prefix, out):
    for c, p in zip(f.coords, f.payloads):
        if isinstance(p, Fiber): content(p, prefix + [c], out)
        elif p.value != 0: out.append((prefix + [c], p.value))

def same(a, b):
    if len(a) != len(b): return False
    for x in a:
        if not any(x[0] == y[0] and x[1] == y[1] for y in b): return False
    return True

def split_halo(c0: int, c1: int, c2: int, v0: int, v1: int, v2: int, a0: int, a1: int) -> bool:
    """
    pre: -2**62 < c0 < c1 < c2 < 2**62
    pre: -2**62 < a0 < a1 < 2**62
    post: _
    """
    step, pre, post = 3, 1, 2
    f = Fiber([c0, c1, c2], [v0, v1, v2], active_range=(a0, a1))
    s = f.splitUniform(step, pre_halo=pre, post_halo=post)
    got = []
    last = None
    for P, lf in zip(s.coords, s.payloads):
        if last is not None and not (last < P): return False
        last = P
        if P % step != 0: return False
        if len(lf.coords) == 0: return False
        if lf.getActive() != (max(P, a0), min(P + step, a1)): return False
        for c, p in zip(lf.coords, lf.payloads):
            got.append((P, c, p.value))
    exp = []
    K = (step + pre + post + step - 1) // step + 1
    for c, v in ((c0, v0), (c1, v1), (c2, v2)):
        if v == 0: continue
        if not (a0 - pre <= c < a1 + post): continue
        base = ((c - post) // step) * step
        for j in range(K + 1):
            Q = base + j * step
            if Q + step > a0 and Q < a1 and Q - pre <= c < Q + step + post:
                exp.append((Q, c, v))
    if len(got) != len(exp): return False
    for g in got:
        if not any(g[0] == e[0] and g[1] == e[1] and g[2] == e[2] for e in exp): return False
    return True

def flat3(m0: int, n0: int, n1: int, k0: int, k1: int, k2: int, v0: int, v1: int, v2: int) -> bool:
    """
    pre: n0 < n1 and k0 < k1
    post: _
    """
    root = Fiber([m0], [Fiber([n0, n1], [Fiber([k0, k1], [v0, v1]), Fiber([k2], [v2])])])
    t = Tensor.fromFiber(rank_ids=["M", "N", "K"], fiber=root)
    fl = t.flattenRanks(levels=2)
    a = []; content(fl.getRoot(), [], a)
    exp = [([(m0, n0, k0)], v0), ([(m0, n0, k1)], v1), ([(m0, n1, k2)], v2)]
    exp = [e for e in exp if e[1] != 0]
    if not same(a, exp): return False
    un = fl.unflattenRanks(levels=2)
    b = []; content(un.getRoot(), [], b)
    c = []; content(t.getRoot(), [], c)
    return same(b, c) and un.getRankIds() == ["M", "N", "K"]

def shaperef(c0: int, c1: int, v0: int, v1: int, s: int, e: int) -> bool:
    """
    pre: c0 < c1
    pre: 0 <= e - s <= 4
    post: _
    """
    f = Fiber([c0, c1], [v0, v1])
    got = [(c, p.value) for c, p in f.iterRangeShapeRef(s, e)]
    n = e - s
    if len(got) != n: return False
    for i, (c, v) in enumerate(got):
        if c != s + i: return False
        ev = v0 if c == c0 else (v1 if c == c1 else 0)
        if v != ev: return False
    # inserted exactly visited absent coords
    cs = f.coords
    for i in range(1, len(cs)):
        if not cs[i - 1] < cs[i]: return False
    cnt = 2
    for i in range(n):
        c = s + i
        if c != c0 and c != c1: cnt += 1
    return len(cs) == cnt

def setitem_step(c0: int, c1: int, c2: int, v0: int, v1: int, v2: int, y: int, u: int) -> bool:
    """
    pre: c0 < c1 < c2
    post: _
    """
    from fibertree.core.fiber import CoordinateError
    for pos in (-3, -2, -1, 0, 1, 2):
        f = Fiber([c0, c1, c2], [v0, v1, v2])
        before = (list(f.coords), [p.value for p in f.payloads])
        try:
            f[pos] = CoordPayload(y, u)
        except CoordinateError:
            if (list(f.coords), [p.value for p in f.payloads]) != before: return False
        cs = f.coords
        if not (cs[0] < cs[1] < cs[2]): return False
    return True

def shape_sym(s0: int, s1: int, c0: int, c1: int, k: int) -> bool:
    """
    pre: 0 <= c0 < c1 < s0
    pre: 0 <= k < s1
    pre: s0 < 100 and s1 < 100
    post: _
    """
    root = Fiber([c0, c1], [Fiber([k], [1]), Fiber([k], [2])])
    t = Tensor.fromFiber(rank_ids=["M", "K"], fiber=root, shape=[s0, s1])
    sp = t.splitUniform(2, depth=1)
    fl = t.flattenRanks()
    sw = t.swapRanks()
    return sp.getShape(authoritative=True) == [s0, s1, s1] and sp.getRankIds() == ["M", "K.1", "K.0"] and fl.getShape(authoritative=True) == [(s0, s1)] and sw.getShape(authoritative=True) == [s1, s0]
