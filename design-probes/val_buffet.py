import itertools, os
from fibertree import Tensor
from fibertree.model import Format, Traffic

SHAPE_K = 3
A = Tensor(rank_ids=["M", "K"], shape=[2, SHAPE_K])
fmtA = Format(A, {"M": {"format": "U", "pbits": 32}, "K": {"format": "C", "cbits": 32, "pbits": 32}})

def write_trace(fn, rows):
    with open(fn, "w") as f:
        f.write("M_pos,K_pos,M,K,fiber_pos\n")
        for (mp, kp, m, k, pos) in rows:
            f.write(f"{mp},{kp},{m},{k},{pos}\n")

def oracle(reads, writes, evict_on, epl, shape):
    # merge: stable by stamp, reads first on ties (as _combineTraces: write only if strictly earlier)
    allr = sorted([(r[:2], 0, i, r, False) for i, r in enumerate(reads)] + [(w[:2], 1, i, w, True) for i, w in enumerate(writes)])
    groups = {}
    order = []
    for stamp, _, _, (mp, kp, m, k, pos), isw in allr:
        line = (m, pos // epl * epl)
        window = () if evict_on == "root" else (mp,)
        key = (line, window)
        if key not in groups:
            groups[key] = {"first_read": not isw, "wb": False}; order.append(key)
        if isw and pos < shape: groups[key]["wb"] = True
    fills = sum(1 for g in groups.values() if g["first_read"])
    wbs = sum(1 for g in groups.values() if g["wb"])
    return fills, wbs

# enumerate traces: per m in {0,1}: a list of accesses (k_pos increasing) with pos in {0,1,2,3(staging)}
def gen_rows(max_per_m):
    per_m = []
    for n in range(0, max_per_m + 1):
        for poss in itertools.product(range(4), repeat=n):
            per_m.append(poss)
    for p0 in per_m:
        for p1 in per_m:
            rows = [(0, i, 0, 10 + i, p) for i, p in enumerate(p0)] + [(1, i, 1, 10 + i, p) for i, p in enumerate(p1)]
            if rows: yield rows

tot = 0; bad = 0; shown = 0
for rows in gen_rows(2):
    for wmask in itertools.product([0, 1, 2], repeat=len(rows)):   # 0 read only, 1 write only, 2 read+write same stamp
        reads = [r for r, w in zip(rows, wmask) if w in (0, 2)]
        writes = [r for r, w in zip(rows, wmask) if w in (1, 2)]
        if any(r[4] >= SHAPE_K for r in reads): continue   # reads never address staging
        for evict_on in ("root", "M"):
            for epl, line_sz in ((1, 32), (2, 64)):
                traces = {}
                if reads: write_trace("tmp/r.csv", reads); traces[("A", "K", "payload", "read")] = "tmp/r.csv"
                if writes: write_trace("tmp/w.csv", writes); traces[("A", "K", "payload", "write")] = "tmp/w.csv"
                bindings = [{"tensor": "A", "rank": "K", "type": "payload", "evict-on": evict_on}]
                before = sorted(os.listdir("tmp"))
                try:
                    bits, ov = Traffic.buffetTraffic(bindings, {"A": fmtA}, traces, 10**6, line_sz)
                    got = (bits["A"].get("read", 0) // line_sz, bits["A"].get("write", 0) // line_sz)
                except Exception as e:
                    got = ("EXC", type(e).__name__, str(e)[:50])
                after = sorted(os.listdir("tmp"))
                exp = oracle(reads, writes, evict_on, epl, SHAPE_K)
                if not reads: exp = (0, exp[1]) 
                tot += 1
                if got != exp or before != after:
                    bad += 1
                    if shown < 8: shown += 1; print("MISMATCH", rows, wmask, evict_on, epl, "got", got, "exp", exp, before == after)
print("total", tot, "bad", bad)
