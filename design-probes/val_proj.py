import itertools
from fibertree import Fiber
rep = {}
def rec(name, ok, info):
    r = rep.setdefault(name, [0, 0, None]); r[0] += 1
    if not ok:
        r[1] += 1
        if r[2] is None: r[2] = info
S = 5
for n in range(0, 4):
    for coords in itertools.combinations(range(S), n):
        for vals in itertools.product([0, 5], repeat=n):
            pres = [(c, v) for c, v in zip(coords, vals) if v != 0]
            for sgn in (1, -1):
                for off in (-2, 0, 3, 6):
                    for interval in (None, (0, 3), (2, 7), (-1, 1), (4, 4)):
                        f = Fiber(list(coords), list(vals), shape=S)
                        tf = (lambda c, s=sgn, o=off: s * c + o)
                        exp = sorted((tf(c), v) for c, v in pres if interval is None or interval[0] <= tf(c) < interval[1])
                        try:
                            p = f.project(trans_fn=tf, interval=interval)
                            got1 = [(c, q.value) for c, q in p]
                            got2 = [(c, q.value) for c, q in p]
                            ok = got1 == exp and got2 == exp and list(f.coords) == list(coords)
                            act = p.getActive()
                            rec("project", ok, (coords, vals, sgn, off, interval, got1, exp))
                            if interval is None:
                                lo = min(tf(0), tf(S - 1)); hi = max(tf(0), tf(S - 1)) + 1
                                rec("project active", act == (lo, hi), (coords, sgn, off, act, (lo, hi)))
                            else:
                                rec("project active iv", act == tuple(interval) or (interval == (4,4)), (coords, sgn, off, interval, act))
                        except Exception as e:
                            rec("project", False, (coords, vals, sgn, off, interval, "EXC", type(e).__name__, str(e)[:60]))
            for th in range(0, S + 1):
                f = Fiber(list(coords), list(vals), shape=S)
                try:
                    p = f.prune(trans_fn=lambda i, c, q, th=th: c < th)
                    got = [(c, q.value) for c, q in p]
                    rec("prune", got == [(c, v) for c, v in pres if c < th], (coords, vals, th, got))
                except Exception as e:
                    rec("prune", False, (coords, vals, th, "EXC", repr(e)[:60]))
for k, v in rep.items(): print(k, "total", v[0], "bad", v[1], "" if v[2] is None else str(v[2])[:300])
print("--- categorize")
cats = {}
for n in range(0, 4):
    for coords in itertools.combinations(range(S), n):
        for vals in itertools.product([0, 5], repeat=n):
            pres = [(c, v) for c, v in zip(coords, vals) if v != 0]
            for sgn in (1, -1):
                for off in (-2, 0, 3, 6):
                    for interval in (None, (0, 3), (2, 7), (-1, 1), (4, 4)):
                        f = Fiber(list(coords), list(vals), shape=S)
                        tf = (lambda c, s=sgn, o=off: s * c + o)
                        exp = sorted((tf(c), v) for c, v in pres if interval is None or interval[0] <= tf(c) < interval[1])
                        try:
                            got = [(c, q.value) for c, q in f.project(trans_fn=tf, interval=interval)]
                            if got != exp:
                                k = ("wrong", sgn, "allzero" if (n > 0 and not pres) else "haszero" if len(pres) < n else "nozero")
                                cats.setdefault(k, [0, (coords, vals, off, interval, got, exp)])[0] += 1
                        except Exception as e:
                            k = ("exc " + type(e).__name__, sgn, "allzero" if (n > 0 and not pres) else "other")
                            cats.setdefault(k, [0, (coords, vals, off, interval)])[0] += 1
for k, v in sorted(cats.items()): print(k, v)
