import itertools, copy
from fibertree import Tensor, Fiber, Payload

def content(f, prefix=()):
    out = {}
    for c, p in zip(f.coords, f.payloads):
        if isinstance(p, Fiber):
            out.update(content(p, prefix + (c,)))
        elif p.value != 0:
            out[prefix + (c,)] = p.value
    return out

def wf(f, depth_left):
    cs = f.coords
    if len(cs) != len(f.payloads): return False
    if any(not (a < b) for a, b in zip(cs, cs[1:])): return False
    for p in f.payloads:
        if depth_left > 1:
            if not isinstance(p, Fiber) or not wf(p, depth_left - 1): return False
        else:
            if not isinstance(p, Payload) or isinstance(p.value, (Payload, Fiber)): return False
    return True

def mirror(t):
    lv = {}
    def walk(f, d):
        lv.setdefault(d, []).append(f)
        for p in f.payloads:
            if isinstance(p, Fiber): walk(p, d + 1)
    walk(t.getRoot(), 0)
    for i, r in enumerate(t.ranks):
        want = lv.get(i, [])
        if sorted(map(id, want)) != sorted(map(id, r.getFibers())): return False
        if any(f.getOwner() is not r for f in r.getFibers()): return False
    return True

# trees with explicit zeros and empty sub-fibers: 2-level over box 2x2, each row either absent, empty fiber, or list of cells each absent / 0 / 5 / 7
def rows():
    cells = [None, 0, 5]
    out = [None, "EMPTY"]
    for a, b in itertools.product(cells, repeat=2):
        if a is None and b is None: continue
        out.append((a, b))
    return out
def build2(r0, r1):
    coords = []; pls = []
    for m, r in enumerate((r0, r1)):
        if r is None: continue
        if r == "EMPTY": coords.append(m); pls.append(Fiber([], [])); continue
        cs = [k for k, v in enumerate(r) if v is not None]; vs = [v for v in r if v is not None]
        coords.append(m); pls.append(Fiber(cs, vs))
    if not coords: return None
    return Fiber(coords, pls)

report = {}
def rec(name, ok, info):
    r = report.setdefault(name, [0, 0, None]); r[0] += 1
    if not ok:
        r[1] += 1
        if r[2] is None: r[2] = info

for r0, r1 in itertools.product(rows(), repeat=2):
    root = build2(r0, r1)
    if root is None: continue
    try:
        t = Tensor.fromFiber(rank_ids=["M", "K"], fiber=root, shape=[2, 2])
    except Exception as e:
        rec("fromFiber", False, (r0, r1, repr(e))); continue
    base = content(t.getRoot())
    def attempt(name, fn, expmap):
        try:
            r = fn()
            c = content(r.getRoot())
            exp = {expmap(k): v for k, v in base.items()}
            ok = c == exp and wf(r.getRoot(), len(r.getRankIds())) and mirror(r) and content(t.getRoot()) == base
            rec(name, ok, (r0, r1, "got", c, "exp", exp, "wf", wf(r.getRoot(), len(r.getRankIds())), "mirror", mirror(r)))
        except Exception as e:
            rec(name, False, (r0, r1, "EXC", type(e).__name__, str(e)[:60]))
    attempt("swizzle KM", lambda: t.swizzleRanks(["K", "M"]), lambda k: (k[1], k[0]))
    attempt("swizzle twice", lambda: t.swizzleRanks(["K", "M"]).swizzleRanks(["M", "K"]), lambda k: k)
    attempt("swapRanks", lambda: t.swapRanks(), lambda k: (k[1], k[0]))
    attempt("flatten tuple", lambda: t.flattenRanks(), lambda k: ((k[0], k[1]),))
    attempt("flatten linear", lambda: t.flattenRanks(coord_style="linear"), lambda k: (k[0] * 2 + k[1],))
    attempt("flat-unflat", lambda: t.flattenRanks().unflattenRanks(), lambda k: k)
    attempt("split1-flatten-abs", lambda: t.splitUniform(1, depth=1).mergeRanks(depth=1, coord_style="absolute"), lambda k: k)
    attempt("splitU depth1", lambda: t.splitUniform(1, depth=1), lambda k: (k[0], k[1], k[1]))
    attempt("splitU depth0", lambda: t.splitUniform(1, depth=0), lambda k: (k[0], k[0], k[1]))
    attempt("updateCoords d1 +1", lambda: t.updateCoords(lambda i, c, p: c + 1, depth=1), lambda k: (k[0], k[1] + 1))
    attempt("updateCoords d0 +1", lambda: t.updateCoords(lambda i, c, p: c + 1, depth=0), lambda k: (k[0] + 1, k[1]))
    attempt("updatePayloads d1 +1", lambda: t.updatePayloads(lambda i, c, p: p + 1, depth=1), lambda k: k)
for k, v in report.items(): print(k, "total", v[0], "bad", v[1], "" if v[2] is None else str(v[2])[:260])
