import stubs, os
from fibertree import Fiber, Tensor
from fibertree.core.metrics import Metrics
from fibertree.model import Format, Traffic

def _setup():
    A = Tensor.fromUncompressed(["M", "K"], [[1, 0, 2, 3], [0, 4, 5, 0], [6, 0, 0, 7]])
    B = Tensor.fromUncompressed(["K"], [1, 2, 0, 3])
    Z = Tensor(rank_ids=["M"], shape=[3])
    Metrics.beginCollect("tmp/pt")
    Metrics.trace("K", type_="intersect_1")
    for m, (z_ref, a_k) in Z.getRoot() << A.getRoot():
        for k, (a_val, b_val) in a_k & B.getRoot():
            z_ref += a_val * b_val
    Metrics.endCollect()
    return B

_B = _setup()

def cache_cap(cap: int) -> bool:
    """
    pre: 0 <= cap
    post: _
    """
    fmt = Format(_B, {"K": {"format": "C", "cbits": 32, "pbits": 32}})
    bindings = [{"tensor": "B", "rank": "K", "type": "payload"}]
    traces = {("B", "K", "payload", "read"): "tmp/pt-K-intersect_1.csv"}
    bits, ov = Traffic.cacheTraffic(bindings, {"B": fmt}, traces, cap, 32)
    r = bits["B"]["read"]
    # B has 3 nonzeros: distinct lines touched  <= 3; accesses known
    return 32 * 3 <= r <= 32 * 9 and (cap < 96 or r == 96)
