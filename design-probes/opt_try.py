import itertools, os, functools
from fibertree import Tensor
from fibertree.model import Format, Traffic

def opt_misses(seq, k):
    # exhaustive search: state = frozenset cache; on miss choose bypass or insert (evicting any) 
    @functools.lru_cache(None)
    def go(i, cache):
        if i == len(seq): return 0
        x = seq[i]
        if x in cache: return go(i + 1, cache)
        best = 1 + go(i + 1, cache)  # bypass
        if k > 0:
            if len(cache) < k:
                best = min(best, 1 + go(i + 1, cache | {x}))
            else:
                for e in cache:
                    best = min(best, 1 + go(i + 1, (cache - {e}) | {x}))
        return best
    return go(0, frozenset())

B = Tensor.fromUncompressed(["K"], [1, 2, 3, 4])
fmt = Format(B, {"K": {"format": "C", "cbits": 32, "pbits": 32}})
bad = 0; tot = 0
for n in range(1, 7):
    for seq in itertools.product(range(3), repeat=n):
        with open("tmp/t.csv", "w") as f:
            f.write("K_pos,K,fiber_pos\n")
            for i, p in enumerate(seq):
                f.write(f"{i},{p},{p}\n")
        for k in range(0, 4):
            bits, ov = Traffic.cacheTraffic([{"tensor": "B", "rank": "K", "type": "payload"}], {"B": fmt}, {("B", "K", "payload", "read"): "tmp/t.csv"}, k * 32, 32)
            got = bits["B"]["read"] // 32
            exp = opt_misses(seq, k)
            tot += 1
            if got != exp:
                bad += 1
                if bad < 6: print("MISMATCH", seq, k, got, exp)
print("total", tot, "bad", bad, os.listdir("tmp"))
