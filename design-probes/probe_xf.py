import stubs
from fibertree import Fiber, Tensor, Payload

def content(f, prefix, out):
    for c, p in zip(f.coords, f.payloads):
        if isinstance(p, Fiber):
            content(p, prefix + [c], out)
        else:
            if p.value != 0:
                out.append((prefix + [c], p.value))

def flat_unflat(m0: int, m1: int, k0: int, k1: int, k2: int, v0: int, v1: int, v2: int) -> bool:
    """
    pre: 0 <= m0 < m1
    pre: 0 <= k0 < k1
    pre: 0 <= k2
    post: _
    """
    root = Fiber([m0, m1], [Fiber([k0, k1], [v0, v1]), Fiber([k2], [v2])])
    t = Tensor.fromFiber(rank_ids=["M", "K"], fiber=root)
    fl = t.flattenRanks()
    exp = [((m0, k0), v0), ((m0, k1), v1), ((m1, k2), v2)]
    r = fl.getRoot()
    if len(r.coords) != 3: return False
    for (c, v), gc, gp in zip(exp, r.coords, r.payloads):
        if gc != c or gp.value != v: return False
    un = fl.unflattenRanks()
    a = []; content(un.getRoot(), [], a)
    b = []; content(t.getRoot(), [], b)
    return a == b and un.getRankIds() == ["M", "K"]

def swz(k0: int, k1: int, k2: int, v0: int, v1: int, v2: int) -> bool:
    """
    pre: 0 <= k0 < k1 < 4
    pre: 0 <= k2 < 4
    post: _
    """
    root = Fiber([0, 2], [Fiber([k0, k1], [v0, v1]), Fiber([k2], [v2])])
    t = Tensor.fromFiber(rank_ids=["M", "K"], fiber=root)
    s = t.swizzleRanks(["K", "M"])
    a = []; content(s.getRoot(), [], a)
    exp = [([k0, 0], v0), ([k1, 0], v1), ([k2, 2], v2)]
    exp = [(c, v) for (c, v) in exp if v != 0]
    if len(a) != len(exp): return False
    for e in exp:
        if not any(e[0] == x[0] and e[1] == x[1] for x in a): return False
    return True

def unc(v0: int, v1: int, v2: int, v3: int, v4: int, v5: int) -> bool:
    """
    post: _
    """
    nest = [[v0, v1, v2], [v3, v4, v5]]
    t = Tensor.fromUncompressed(["M", "K"], nest)
    if t.getShape() != [2, 3]: return False
    r = t.getRoot()
    for f in [r] + [p for p in r.payloads]:
        for p in f.payloads:
            if not isinstance(p, Fiber) and p.value == 0: return False
    return r.uncompress(shape=[2, 3]) == nest
