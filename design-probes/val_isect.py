import itertools
from fibertree import Fiber
from fibertree.core.metrics import Metrics
from fibertree.model import TwoFingerIntersector, SkipAheadIntersector, LeaderFollowerIntersector

def ref_tf(a, b):
    i = j = n = 0
    while i < len(a) and j < len(b):
        n += 1
        if a[i] == b[j]: i += 1; j += 1
        elif a[i] < b[j]: i += 1
        else: j += 1
    return n
def ref_sa(a, b):
    i = j = n = 0; cur = None
    while i < len(a) and j < len(b):
        if a[i] == b[j]: n += 1; cur = None; i += 1; j += 1
        elif a[i] < b[j]:
            if cur != 0: n += 1; cur = 0
            i += 1
        else:
            if cur != 1: n += 1; cur = 1
            j += 1
    return n

def run(pairs, cls, oneshot):
    try: Metrics.endCollect()
    except Exception: pass
    cj = Fiber(list(range(len(pairs))), [1] * len(pairs)); cj.getRankAttrs().setId("J")
    fa = []; fb = []
    for a, b in pairs:
        x = Fiber(list(a), [1] * len(a)); x.getRankAttrs().setId("K"); fa.append(x)
        y = Fiber(list(b), [1] * len(b)); y.getRankAttrs().setId("K"); fb.append(y)
    it = cls()
    Metrics.beginCollect()
    Metrics.trace("K", "intersect_0", consumable=True)
    Metrics.trace("K", "intersect_1", consumable=True)
    for j, _ in cj:
        for _ in fa[j] & fb[j]: pass
        if not oneshot:
            it.addTraces(Metrics.consumeTrace("K", "intersect_0"), Metrics.consumeTrace("K", "intersect_1"))
    if oneshot:
        it.addTraces(Metrics.consumeTrace("K", "intersect_0"), Metrics.consumeTrace("K", "intersect_1"))
    Metrics.endCollect()
    return it.getNumIntersects()

lists = [c for n in range(0, 4) for c in itertools.combinations(range(4), n)]
res = {}
for nf in (1, 2):
    for pairs in itertools.product(itertools.product(lists, lists), repeat=nf):
        if nf == 2 and (len(pairs[0][0]) > 2 or len(pairs[0][1]) > 2 or len(pairs[1][0]) > 2 or len(pairs[1][1]) > 2): continue
        for cls, ref, nm in ((TwoFingerIntersector, ref_tf, "tf"), (SkipAheadIntersector, ref_sa, "sa")):
            exp = sum(ref(a, b) for a, b in pairs)
            for oneshot in (False, True):
                key = (nm, nf, oneshot)
                r = res.setdefault(key, [0, 0, []])
                r[0] += 1
                try: got = run(pairs, cls, oneshot)
                except Exception as e: got = ("EXC", type(e).__name__)
                if got != exp:
                    r[1] += 1
                    if len(r[2]) < 3: r[2].append((pairs, got, exp))
for k, v in sorted(res.items()): print(k, "total", v[0], "bad", v[1], v[2])

print("--- categorize one-shot failures")
cat = {}
for pairs in itertools.product(itertools.product(lists, lists), repeat=2):
    if any(len(x) > 2 for p in pairs for x in p): continue
    for cls, ref, nm in ((TwoFingerIntersector, ref_tf, "tf"), (SkipAheadIntersector, ref_sa, "sa")):
        exp = sum(ref(a, b) for a, b in pairs)
        try: got = run(pairs, cls, True)
        except Exception as e: got = "EXC"
        if got != exp:
            has_empty = any(len(x) == 0 for p in pairs for x in p)
            k = (nm, "empty-operand" if has_empty else "no-empty", "exc" if got == "EXC" else "wrong")
            c = cat.setdefault(k, [0, None]); c[0] += 1
            if c[1] is None: c[1] = (pairs, got, exp)
for k, v in sorted(cat.items()): print(k, v)
