import sys, time, importlib, collections
import z3
_q = {"n": 0, "t": 0.0}
_orig = z3.Solver.check
def _check(self, *a):
    t = time.perf_counter()
    r = _orig(self, *a)
    _q["t"] += time.perf_counter() - t
    _q["n"] += 1
    return r
z3.Solver.check = _check
from crosshair.core_and_libs import analyze_function, run_checkables
from crosshair.options import AnalysisOptionSet
from crosshair.options import AnalysisKind
mod = importlib.import_module(sys.argv[1])
fn = getattr(mod, sys.argv[2])
tmo = float(sys.argv[3]) if len(sys.argv) > 3 else 120
stats = collections.Counter()
opts = AnalysisOptionSet(per_condition_timeout=tmo, per_path_timeout=tmo, max_uninteresting_iterations=10**9, report_all=True, stats=stats, analysis_kind=[AnalysisKind.PEP316])
t0 = time.time()
msgs = run_checkables(analyze_function(fn, opts))
for m in msgs:
    print(m.state, m.message)
print("stats", dict(stats), "queries", _q, "wall", round(time.time() - t0, 1))
