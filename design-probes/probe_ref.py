import stubs
from fibertree import Fiber, Tensor, Payload

def walk(f, depth, out):
    out.setdefault(depth, []).append(f)
    for p in f.payloads:
        if isinstance(p, Fiber):
            walk(p, depth + 1, out)

def wf(f):
    cs = f.coords
    if len(cs) != len(f.payloads): return False
    for i in range(1, len(cs)):
        if not (cs[i-1] < cs[i]): return False
    return True

def ranks_ok(t):
    out = {}
    walk(t.getRoot(), 0, out)
    for i, r in enumerate(t.ranks):
        want = out.get(i, [])
        got = r.getFibers()
        if len(want) != len(got): return False
        for g in got:
            if not any(g is w for w in want): return False
            if g.getOwner() is not r: return False
    return True

def ref_insert(m0: int, m1: int, k0: int, k1: int, k2: int, m: int, k: int, v0: int, v1: int, v2:int, w: int) -> bool:
    """
    pre: 0 <= m0 < m1
    pre: 0 <= k0 < k1
    pre: 0 <= k2
    pre: 0 <= m and 0 <= k
    post: _
    """
    t = Tensor(rank_ids=["M", "K"])
    root = t.getRoot()
    root.getPayloadRef(m0, k0).__ilshift__(v0)
    root.getPayloadRef(m0, k1).__ilshift__(v1)
    root.getPayloadRef(m1, k2).__ilshift__(v2)
    model = {(m0, k0): v0, (m0, k1): v1, (m1, k2): v2}
    before = t.getPayload(m, k)
    exp_before = model.get((m, k), 0)
    if before != exp_before: return False
    r = t.getPayloadRef(m, k)
    r += w
    model[(m, k)] = exp_before + w
    # all fibers well-formed, ranks consistent
    out = {}
    walk(root, 0, out)
    for d in out:
        for f in out[d]:
            if not wf(f): return False
    if not ranks_ok(t): return False
    for (a, b), v in model.items():
        if t.getPayload(a, b) != v: return False
    return True
