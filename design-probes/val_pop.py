import itertools
from fibertree import Tensor, Fiber, Payload
from val_xform import rows, build2, content, wf, mirror
rep = {}
def rec(name, ok, info):
    r = rep.setdefault(name, [0, 0, None]); r[0] += 1
    if not ok:
        r[1] += 1
        if r[2] is None: r[2] = info
def raw(f):
    return [(c, raw(p) if isinstance(p, Fiber) else p.value) for c, p in zip(f.coords, f.payloads)]
zrows = [None, "EMPTY", (None, 0), (5, None), (0, 5)]
arows = [None, "EMPTY", (None, 0), (3, None), (3, 3), (0, 3)]
for z0, z1 in itertools.product(zrows, repeat=2):
    for a0, a1 in itertools.product(arows, repeat=2):
        for policy in itertools.product([0, 1, 2], repeat=4):   # per cell (m,k): 0 leave, 1 += a, 2 <<= 0
            zf = build2(z0, z1); af = build2(a0, a1)
            if af is None: af = Fiber([], [])
            tz = Tensor(rank_ids=["M", "K"], shape=[2, 2])
            if zf is not None: tz.setRoot(zf)
            ta = Tensor.fromFiber(rank_ids=["M", "K"], fiber=af, shape=[2, 2])
            zroot = tz.getRoot(); aroot = ta.getRoot()
            before = content(zroot); abefore = raw(aroot); zraw_before = raw(zroot)
            acont = content(aroot)
            exp = dict(before)
            offered = []
            try:
                for m, (z_k, a_k) in zroot << aroot:
                    for k, (z_ref, a_val) in z_k << a_k:
                        offered.append((m, k))
                        pol = policy[m * 2 + k]
                        if pol == 1:
                            z_ref += a_val; exp[(m, k)] = exp.get((m, k), 0) + a_val.value
                        elif pol == 2:
                            z_ref <<= 0; exp[(m, k)] = 0
                    if not (wf(zroot, 2) and mirror(tz)): rec("wf/mirror during", False, (z0, z1, a0, a1, policy, raw(zroot)))
                exp = {k: v for k, v in exp.items() if v != 0}
                rec("offered == content(a)", sorted(offered) == sorted(acont.keys()), (z0, z1, a0, a1, offered, acont))
                rec("content after", content(zroot) == exp, (z0, z1, a0, a1, policy, content(zroot), exp))
                rec("wf after", wf(zroot, 2), (z0, z1, a0, a1, policy, raw(zroot)))
                rec("mirror after", mirror(tz), (z0, z1, a0, a1, policy, raw(zroot), [len(r.getFibers()) for r in tz.ranks]))
                rec("a unchanged", raw(aroot) == abefore and mirror(ta), (z0, z1, a0, a1))
                # nothing left behind: every raw element of z not in before-raw must be non-default
                def left_behind(f, fb):
                    bc = dict(fb)
                    for c, p in zip(f.coords, f.payloads):
                        if isinstance(p, Fiber):
                            if c not in bc:
                                if len(p.coords) == 0: return True
                                if left_behind(p, []): return True
                            else:
                                if left_behind(p, bc[c]): return True
                        else:
                            if c not in bc and p.value == 0: return True
                    return False
                rec("nothing left behind", not left_behind(zroot, zraw_before), (z0, z1, a0, a1, policy, zraw_before, raw(zroot)))
            except Exception as e:
                rec("exception", False, (z0, z1, a0, a1, policy, type(e).__name__, str(e)[:80]))
for k, v in rep.items(): print(k, "total", v[0], "bad", v[1], "" if v[2] is None else str(v[2])[:400])
