import stubs
from fibertree import Fiber

def _chk(cs, vs, a0, a1, step, pre, post):
    f = Fiber(list(cs), list(vs), active_range=(a0, a1))
    s = f.splitUniform(step, pre_halo=pre, post_halo=post)
    got = []
    last = None
    for P, lf in zip(s.coords, s.payloads):
        if last is not None and not (last < P): return False
        last = P
        if P % step != 0: return False
        if len(lf.coords) == 0: return False
        if lf.getActive() != (max(P, a0), min(P + step, a1)): return False
        for c, p in zip(lf.coords, lf.payloads):
            got.append((P, c, p.value))
    exp = []
    K = (step + pre + post + step - 1) // step + 1
    for c, v in zip(cs, vs):
        if v == 0: continue
        if not (a0 - pre <= c < a1 + post): continue
        base = ((c - post) // step) * step
        for j in range(K + 1):
            Q = base + j * step
            if Q + step > a0 and Q < a1 and Q - pre <= c < Q + step + post:
                exp.append((Q, c, v))
    if len(got) != len(exp): return False
    for g in got:
        if not any(g[0] == e[0] and g[1] == e[1] and g[2] == e[2] for e in exp): return False
    return True

def h2(c0: int, c1: int, a0: int, a1: int) -> bool:
    """
    pre: -2**62 < c0 < c1 < 2**62
    pre: -2**62 < a0 < a1 < 2**62
    post: _
    """
    return _chk([c0, c1], [5, 7], a0, a1, 3, 1, 2)

def h3(c0: int, c1: int, c2: int, a0: int, a1: int) -> bool:
    """
    pre: -2**62 < c0 < c1 < c2 < 2**62
    pre: -2**62 < a0 < a1 < 2**62
    post: _
    """
    return _chk([c0, c1, c2], [5, 0, 7], a0, a1, 2, 1, 0)

def h3n(c0: int, c1: int, c2: int) -> bool:
    """
    pre: 0 <= c0 < c1 < c2 < 12
    post: _
    """
    return _chk([c0, c1, c2], [5, 6, 7], 0, 12, 3, 1, 2)
