import stubs
from fibertree import Fiber, Tensor, Payload
from probe_ref2 import walk, wf, ranks_ok

def populate(z0: int, z1: int, zv0: int, zv1: int, a0: int, a1: int, av0: int, av1: int, op0: int, op1: int, w0: int, w1: int) -> bool:
    """
    pre: 0 <= z0 < z1
    pre: 0 <= a0 < a1
    pre: 0 <= op0 <= 2 and 0 <= op1 <= 2
    post: _
    """
    tz = Tensor(rank_ids=["K"])
    z = tz.getRoot()
    z.getPayloadRef(z0).__ilshift__(zv0)
    z.getPayloadRef(z1).__ilshift__(zv1)
    a = Fiber([a0, a1], [av0, av1])
    zm = [(z0, zv0), (z1, zv1)]
    am = [(a0, av0), (a1, av1)]
    ops = [op0, op1]
    ws = [w0, w1]
    seen = []
    i = 0
    for c, (zref, aval) in z << a:
        seen.append((c, aval.value, zref.value))
        if i < 2:
            if ops[i] == 1:
                zref <<= ws[i]
            elif ops[i] == 2:
                zref += ws[i]
        i += 1
    # expected offered coordinates: nonzero elements of a
    exp = [(c, v) for (c, v) in am if v != 0]
    if len(seen) != len(exp): return False
    def zlook(c):
        for (x, v) in zm:
            if x == c: return v
        return 0
    newz = list(zm)
    for j, ((c, v), (sc, sv, szv)) in enumerate(zip(exp, seen)):
        if sc != c or sv != v: return False
        if szv != zlook(c): return False
        if ops[j] == 1:
            nv = ws[j]
        elif ops[j] == 2:
            nv = zlook(c) + ws[j]
        else:
            nv = None
        if nv is not None:
            newz = [(x, y) for (x, y) in newz if x != c] + [(c, nv)]
    # compare content (nonzero)
    for (x, y) in newz:
        if z.getPayload(x) != y: return False
    # no extra nonzero coords
    for c, p in zip(z.coords, z.payloads):
        if p != 0:
            if not any(x == c and y == p.value for (x, y) in newz): return False
    # untouched-default coordinates offered by a leave no element behind
    for j, (c, v) in enumerate(exp):
        if zlook(c) == 0 and not any(x == c for (x, _) in zm):
            fin = None
            for (x, y) in newz:
                if x == c: fin = y
            if fin is None or fin == 0:
                if any(x == c for x in z.coords): return False
    if not wf(z): return False
    if not ranks_ok(tz): return False
    if a.coords != [a0, a1]: return False
    return True
