import itertools
from fibertree import Tensor, Fiber, Payload
from fibertree.core.metrics import Metrics
rep = {}
def rec(name, ok, info):
    r = rep.setdefault(name, [0, 0, None]); r[0] += 1
    if not ok:
        r[1] += 1
        if r[2] is None: r[2] = info
TYPES = {"M": ["iter", "populate_read_0", "populate_write_0", "populate_1"], "K": ["iter", "intersect_0", "intersect_1"]}
def nests(shape, vals):
    n = 1
    for s in shape: n *= s
    for flat in itertools.product(vals, repeat=n):
        it = iter(flat)
        def build(dims):
            if len(dims) == 1: return [next(it) for _ in range(dims[0])]
            return [build(dims[1:]) for _ in range(dims[0])]
        yield build(list(shape))
for A in nests([2, 3], (0, 2)):
    for B in nests([3], (0, 3)):
        for zpre in ([0, 0], [7, 0], [0, 7]):
            a = Tensor.fromUncompressed(["M", "K"], A); b = Tensor.fromUncompressed(["K"], B)
            z = Tensor(rank_ids=["M"], shape=[2])
            for i, v in enumerate(zpre):
                if v: z.getPayloadRef(i).__ilshift__(v)
            Metrics.beginCollect()
            for r, tys in TYPES.items():
                for ty in tys: Metrics.trace(r, type_=ty, consumable=True)
            bodiesM = 0; bodiesK = 0; muls = 0
            for m, (z_ref, a_k) in z.getRoot() << a.getRoot():
                bodiesM += 1
                for k, (a_val, b_val) in a_k & b.getRoot():
                    bodiesK += 1
                    z_ref += a_val * b_val; muls += 1
            tr = {(r, ty): Metrics.consumeTrace(r, ty) for r, tys in TYPES.items() for ty in tys}
            dump = Metrics.dump()
            Metrics.endCollect()
            info = (A, B, zpre)
            for (r, ty), rows in tr.items():
                if not rows:
                    rec(f"{r}-{ty} has header", bodiesM == 0 or (r == "K" and bodiesM > 0 and False) or True, info); continue
                hdr = rows[0]; body = rows[1:]
                nr = 1 if r == "M" else 2
                rec(f"{r}-{ty} header", hdr == (["M_pos", "M", "fiber_pos"] if r == "M" else ["M_pos", "K_pos", "M", "K", "fiber_pos"]), info + (hdr,))
                stamps = [tuple(x[:nr]) for x in body]
                if ty == "iter": ok = all(s1 < s2 for s1, s2 in zip(stamps, stamps[1:]))
                else: ok = all(s1 <= s2 for s1, s2 in zip(stamps, stamps[1:]))
                rec(f"{r}-{ty} stamps ordered", ok, info + (body,))
            rec("iter rows M == bodies", len(tr[("M", "iter")]) - 1 == bodiesM if tr[("M", "iter")] else bodiesM == 0, info + (tr[("M", "iter")], bodiesM))
            rec("iter rows K == bodies", (len(tr[("K", "iter")]) - 1 if tr[("K", "iter")] else 0) == bodiesK, info + (tr[("K", "iter")], bodiesK))
            rec("mul count", dump.get("Compute", {}).get("payload_mul", 0) == muls, info + (dump,))
            exp = [sum(A[m][k] * B[k] for k in range(3)) + zpre[m] for m in range(2)]
            rec("result", [Payload.get(z.getPayload(i)) for i in range(2)] == exp, info)
for k, v in sorted(rep.items()): print(k, "total", v[0], "bad", v[1], "" if v[2] is None else str(v[2])[:300])
