import sys, time, collections, inspect
import stubs
import z3
from crosshair.core_and_libs import analyze_function, run_checkables
from crosshair.options import AnalysisOptionSet, AnalysisKind
from fibertree import Fiber

def make(n_a, n_b, negate=False, extra_pre=()):
    names = [f"a{i}" for i in range(n_a)] + [f"b{i}" for i in range(n_b)]
    def body(*args):
        a = list(args[:n_a]); b = list(args[n_a:])
        fa = Fiber(a, [1] * n_a); fb = Fiber(b, [1] * n_b)
        got = [c for c, _ in fa & fb]
        exp = [c for c in a if any(c == d for d in b)]
        return got == exp
    pres = []
    if n_a > 1: pres.append(" < ".join(names[:n_a]))
    if n_b > 1: pres.append(" < ".join(names[n_a:]))
    pres += list(extra_pre)
    doc = "\n".join(f"pre: {p}" for p in pres) + "\npost: " + ("not _" if negate else "_") + "\n"
    src = f"def h({', '.join(n + ': int' for n in names)}) -> bool:\n    return _body({', '.join(names)})\n"
    import linecache
    src = src.replace("\n    return", '\n    """\n    ' + doc.replace("\n", "\n    ") + '"""\n    return', 1)
    fname = f"<gen-{n_a}-{n_b}-{negate}>"
    linecache.cache[fname] = (len(src), None, src.splitlines(True), fname)
    ns = {"_body": body, "__name__": "gen"}
    exec(compile(src, fname, "exec"), ns)
    return ns["h"]

for (na, nb) in [(0, 2), (2, 2), (3, 2)]:
    for neg in (False, True):
        h = make(na, nb, neg)
        st = collections.Counter()
        t0 = time.time()
        msgs = run_checkables(analyze_function(h, AnalysisOptionSet(per_condition_timeout=60, per_path_timeout=60, max_uninteresting_iterations=10**9, report_all=True, stats=st, analysis_kind=[AnalysisKind.PEP316])))
        print(na, nb, neg, [(m.state.name, m.message) for m in msgs], dict(st), round(time.time() - t0, 2))
