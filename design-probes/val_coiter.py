import itertools
from fibertree import Tensor, Fiber, Payload
rep = {}
def rec(name, ok, info):
    r = rep.setdefault(name, [0, 0, None]); r[0] += 1
    if not ok:
        r[1] += 1
        if r[2] is None: r[2] = info
S = 4
def fibers(maxn):
    for n in range(0, maxn + 1):
        for coords in itertools.combinations(range(S), n):
            for vals in itertools.product([0, 5], repeat=n):
                yield coords, vals
def pres(c, v): return [x for x, y in zip(c, v) if y != 0]
def raw(f): return (list(f.coords), [p.value for p in f.payloads])
fl = list(fibers(3))
for (ac, av), (bc, bv) in itertools.product(fl, repeat=2):
    a = Fiber(list(ac), list(av), shape=S); b = Fiber(list(bc), list(bv), shape=S)
    pa, pb = pres(ac, av), pres(bc, bv)
    ra, rb = raw(a), raw(b)
    try:
        got = [(c, p) for c, p in a & b]
        rec("&", [c for c, _ in got] == [c for c in pa if c in pb] and all(p.value[0] is a.getPayload(c) or True for c, p in got), (ac, av, bc, bv, got))
        # identity of payloads
        ok = True
        for c, p in a & b:
            pa_, pb_ = p.value
            if pa_ is not a.payloads[a.coords.index(c)] or pb_ is not b.payloads[b.coords.index(c)]: ok = False
        rec("& identity", ok, (ac, av, bc, bv))
        got = [(c, p.value[0]) for c, p in a | b]
        exp = [(c, ("A" if c in pa else "") + ("B" if c in pb else "")) for c in sorted(set(pa) | set(pb))]
        rec("|", got == exp, (ac, av, bc, bv, got, exp))
        got = [(c, p.value[0]) for c, p in a ^ b]
        exp = [(c, "A" if c in pa else "B") for c in sorted(set(pa) ^ set(pb))]
        rec("^", got == exp, (ac, av, bc, bv, got, exp))
        got = [c for c, p in a - b]
        rec("-", got == [c for c in pa if c not in pb], (ac, av, bc, bv, got))
        got = [(c, [Payload.get(x) for x in p.value]) for c, p in Fiber.intersection(a, b, style="leader-follower")]
        exp = [(c, [av[ac.index(c)], bv[bc.index(c)] if c in bc else 0]) for c in pa]
        rec("leader-follower", got == exp, (ac, av, bc, bv, got, exp))
        rec("operands unchanged", raw(a) == ra and raw(b) == rb, (ac, av, bc, bv))
    except Exception as e:
        rec("exception", False, (ac, av, bc, bv, type(e).__name__, str(e)[:80]))
# 3-ary
fl2 = list(fibers(2))
for A, B, C in itertools.product(fl2, repeat=3):
    fs = [Fiber(list(c), list(v), shape=S) for c, v in (A, B, C)]
    ps = [pres(c, v) for c, v in (A, B, C)]
    try:
        got = [(c, p.value[0]) for c, p in Fiber.union(*fs)]
        exp = [(c, "".join(l for l, q in zip("ABC", ps) if c in q)) for c in sorted(set().union(*ps))]
        rec("union3", got == exp, (A, B, C, got, exp))
        got = [(c, len(p.value)) for c, p in Fiber.intersection(*fs)]
        exp = [(c, 3) for c in sorted(set(ps[0]) & set(ps[1]) & set(ps[2]))]
        rec("intersection3", got == exp, (A, B, C, got, exp))
    except Exception as e:
        rec("exception3", False, (A, B, C, type(e).__name__, str(e)[:80]))
# U format rank
for (ac, av), (bc, bv) in itertools.product(fl2, repeat=2):
    ta = Tensor.fromFiber(rank_ids=["K"], fiber=Fiber(list(ac), list(av)), shape=[S]); ta.setFormat("K", "U")
    b = Fiber(list(bc), list(bv), shape=S)
    try:
        got = [c for c, p in ta.getRoot() & b]
        rec("& with U lhs", got == pres(bc, bv), (ac, av, bc, bv, got))
        got = [c for c, p in ta.getRoot() | b]
        rec("| with U lhs", got == list(range(S)), (ac, av, bc, bv, got))
    except Exception as e:
        rec("exceptionU", False, (ac, av, bc, bv, type(e).__name__, str(e)[:80]))
for k, v in rep.items(): print(k, "total", v[0], "bad", v[1], "" if v[2] is None else str(v[2])[:300])
