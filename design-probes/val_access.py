import itertools
from fibertree import Tensor, Fiber, Payload
from fibertree.model import Format
rep = {}
def rec(name, ok, info):
    r = rep.setdefault(name, [0, 0, None]); r[0] += 1
    if not ok:
        r[1] += 1
        if r[2] is None: r[2] = info
S = 5
def raw(f): return (list(f.coords), [p.value for p in f.payloads])
for n in range(0, 4):
    for coords in itertools.combinations(range(S), n):
        for vals in itertools.product([0, 5], repeat=n):
            for q in range(-1, S + 1):
                base = Fiber(list(coords), list(vals), shape=S)
                exp = dict(zip(coords, vals)).get(q, 0)
                for s in [None] + list(range(n)):
                    if s is not None and not (coords[s] <= q): continue
                    f = Fiber(list(coords), list(vals), shape=S)
                    try:
                        g = f.getPayload(q, start_pos=s)
                        rec("getPayload start_pos", Payload.get(g) == exp and raw(f) == raw(base), (coords, vals, q, s, g))
                    except Exception as e: rec("getPayload start_pos", False, (coords, vals, q, s, type(e).__name__, str(e)[:50]))
                    f = Fiber(list(coords), list(vals), shape=S)
                    try:
                        g = f.getPayload(q, allocate=False, default=77, start_pos=s)
                        rec("getPayload noalloc", Payload.get(g) == (dict(zip(coords, vals))[q] if q in coords else 77) and raw(f) == raw(base), (coords, vals, q, s, g))
                    except Exception as e: rec("getPayload noalloc", False, (coords, vals, q, s, type(e).__name__, str(e)[:50]))
                    f = Fiber(list(coords), list(vals), shape=S)
                    try:
                        g = f.getPayloadRef(q, start_pos=s)
                        ec = sorted(set(coords) | {q})
                        rec("getPayloadRef start_pos", Payload.get(g) == exp and list(f.coords) == ec and g is f.payloads[f.coords.index(q)], (coords, vals, q, s, raw(f)))
                    except Exception as e: rec("getPayloadRef start_pos", False, (coords, vals, q, s, type(e).__name__, str(e)[:50]))
                    f = Fiber(list(coords), list(vals), shape=S)
                    try:
                        g = f.getPosition(q, start_pos=s)
                        rec("getPosition", g == (coords.index(q) if q in coords else None) and raw(f) == raw(base), (coords, vals, q, s, g))
                    except Exception as e: rec("getPosition", False, (coords, vals, q, s, type(e).__name__, str(e)[:50]))
                    f = Fiber(list(coords), list(vals), shape=S)
                    try:
                        g = f.getPositionRef(q, start_pos=s)
                        ec = sorted(set(coords) | {q})
                        rec("getPositionRef", g == ec.index(q) and list(f.coords) == ec, (coords, vals, q, s, g, raw(f)))
                    except Exception as e: rec("getPositionRef", False, (coords, vals, q, s, type(e).__name__, str(e)[:50]))
# footprints
for fm, fk in itertools.product("CU", repeat=2):
    for nest in ([[1, 0, 2], [0, 0, 0]], [[0, 0, 0], [0, 3, 0]], [[1, 1, 1], [1, 1, 1]]):
        t = Tensor.fromUncompressed(["M", "K"], nest)
        spec = {"root": {"hbits": 3, "pbits": 5}, "M": {"format": fm, "rhbits": 7, "fhbits": 11, "cbits": 13, "pbits": 17}, "K": {"format": fk, "rhbits": 19, "fhbits": 23, "cbits": 29, "pbits": 31}}
        f = Format(t, spec)
        root = t.getRoot()
        nM = len(root.coords) if fm == "C" else 2
        fpM = 11 + (13 + 17) * nM
        kf = t.ranks[1].getFibers()
        def fpK(fib): return 23 + (29 + 31) * (len(fib.coords) if fk == "C" else 3)
        rankK = 19 + sum(fpK(x) for x in kf)
        rec("getRank", f.getRank("M") == 7 + fpM and f.getRank("K") == rankK, (fm, fk, nest, f.getRank("M"), f.getRank("K")))
        rec("getTensor", f.getTensor() == 8 + 7 + fpM + rankK, (fm, fk, nest))
        # subtree from root: reachable fibers: through stored elems (C) or every coord of shape (U, absent = empty fiber)
        if fm == "C": children = list(root.payloads)
        else: children = [root.getPayload(i) for i in range(2)]
        st = fpM + sum(fpK(x) for x in children)
        try: rec("getSubTree()", f.getSubTree() == st, (fm, fk, nest, f.getSubTree(), st))
        except Exception as e: rec("getSubTree()", False, (fm, fk, nest, type(e).__name__, str(e)[:60]))
for k, v in rep.items(): print(k, "total", v[0], "bad", v[1], "" if v[2] is None else str(v[2])[:300])
