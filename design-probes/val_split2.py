import itertools, math
from fibertree import Fiber
INF = float("inf")
S = 7
def spec_nonuniform(elems, splits, pre, post, a0, a1, relative):
    parts = []
    bounds = list(splits) + [INF]
    for i in range(len(splits)):
        lo, hi = bounds[i], bounds[i + 1]
        if not (hi > a0 and lo < a1): continue
        mem = [(c - lo if relative else c, v) for c, v in elems if a0 - pre <= c < a1 + post and lo - pre <= c < hi + post]
        if mem: parts.append((lo, mem, (max(lo, a0), min(hi, a1))))
    return parts
def got_tree(s):
    return [(uc, list(zip(lf.coords, [p.value for p in lf.payloads])), lf.getActive()) for uc, lf in zip(s.coords, s.payloads)]
def splits_equal(elems, size, a0, a1):
    act = [c for c, v in elems if a0 <= c < a1]
    sp = []
    for i, c in enumerate(act):
        if i == 0: sp.append(a0)
        elif i % size == 0: sp.append(c)
    return sp
def splits_unequal(elems, sizes, a0, a1):
    act = [c for c, v in elems if a0 <= c < a1]
    sp = []; j = 0; base = 0
    for i, c in enumerate(act):
        if j == len(sizes): break
        if i == 0: sp.append(a0)
        elif i - base == sizes[j]:
            base = i; j += 1; sp.append(c)
    return sp
bad = {"nu": 0, "eq": 0, "ue": 0}; tot = 0
def cmp(kind, g, e, info):
    global tot
    tot += 1
    if g != e:
        bad[kind] += 1
        if bad[kind] <= 5: print("MISMATCH", kind, info, "got", g, "exp", e)
for n in range(0, 5):
    for coords in itertools.combinations(range(S), n):
        for vals in itertools.product([0, 5], repeat=n):
            elems = [(c, v) for c, v in zip(coords, vals) if v != 0]
            for (a0, a1) in [(0, S), (1, 5), (3, 7)]:
                for pre, post in [(0, 0), (1, 0), (0, 1), (2, 1)]:
                    for rel in (False, True):
                        def mk(): return Fiber(list(coords), list(vals), shape=S, active_range=(a0, a1))
                        for splits in ([], [0], [2], [0, 3], [1, 4, 6], [0, 2, 5]):
                            try: g = got_tree(mk().splitNonUniform(list(splits), pre_halo=pre, post_halo=post, relativeCoords=rel))
                            except Exception as e: g = ("EXC", type(e).__name__, str(e)[:40])
                            cmp("nu", g, spec_nonuniform(elems, splits, pre, post, a0, a1, rel), (coords, vals, (a0, a1), pre, post, rel, splits))
                        for size in (1, 2, 3):
                            try: g = got_tree(mk().splitEqual(size, pre_halo=pre, post_halo=post, relativeCoords=rel))
                            except Exception as e: g = ("EXC", type(e).__name__, str(e)[:40])
                            cmp("eq", g, spec_nonuniform(elems, splits_equal(elems, size, a0, a1), pre, post, a0, a1, rel), (coords, vals, (a0, a1), pre, post, rel, size))
                        for sizes in ([1], [1, 2], [2, 1], [3]):
                            try: g = got_tree(mk().splitUnEqual(list(sizes), pre_halo=pre, post_halo=post, relativeCoords=rel))
                            except Exception as e: g = ("EXC", type(e).__name__, str(e)[:40])
                            cmp("ue", g, spec_nonuniform(elems, splits_unequal(elems, sizes, a0, a1), pre, post, a0, a1, rel), (coords, vals, (a0, a1), pre, post, rel, sizes))
print("total", tot, "bad", bad)
