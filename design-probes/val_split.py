import itertools, math
from fibertree import Fiber

S = 7
def spec_uniform(elems, step, pre, post, a0, a1, relative):
    """elems: list of (c, v) present (v != 0). returns list of (P, [(c', v)]) """
    parts = {}
    for c, v in elems:
        if not (a0 - pre <= c < a1 + post): continue
        P = ((c - post) // step) * step
        K = -(-(step + pre + post) // step) + 1
        for j in range(K + 1):
            Q = P + j * step
            if Q + step > a0 and Q < a1 and Q - pre <= c < Q + step + post:
                parts.setdefault(Q, []).append((c - Q if relative else c, v))
    return sorted(parts.items())

def got_tree(s):
    return [(uc, list(zip(lf.coords, [p.value for p in lf.payloads])), lf.getActive()) for uc, lf in zip(s.coords, s.payloads)]

bad = 0; tot = 0
for n in range(0, 4):
    for coords in itertools.combinations(range(S), n):
        for vals in itertools.product([0, 5], repeat=n):
            elems = [(c, v) for c, v in zip(coords, vals) if v != 0]
            for (a0, a1) in [(0, S), (1, 5), (2, 3), (3, 7)]:
                for step in (1, 2, 3):
                    for pre, post in [(0, 0), (1, 0), (0, 1), (2, 1)]:
                        for rel in (False, True):
                            f = Fiber(list(coords), list(vals), shape=S, active_range=(a0, a1))
                            try:
                                s = f.splitUniform(step, pre_halo=pre, post_halo=post, relativeCoords=rel)
                                g = got_tree(s)
                            except Exception as e:
                                g = ("EXC", type(e).__name__)
                            e_ = spec_uniform(elems, step, pre, post, a0, a1, rel)
                            tot += 1
                            ok = isinstance(g, list) and [(p, l) for p, l, _ in g] == e_ and all(ar == (max(p, a0), min(p + step, a1)) for p, _, ar in g)
                            if not ok:
                                bad += 1
                                if bad <= 8: print("MISMATCH", coords, vals, (a0, a1), step, pre, post, rel, "got", g, "exp", e_)
print("uniform total", tot, "bad", bad)
