import sys, time, collections, importlib, os, tempfile
import stubs
from crosshair.core_and_libs import analyze_function, run_checkables
from crosshair.options import AnalysisOptionSet, AnalysisKind

TEMPLATE = '''
from fibertree import Fiber
def h({sig}) -> bool:
    """
{pres}
    post: {post}
    """
    a = [{a}]; b = [{b}]
    fa = Fiber(a, [1] * len(a)); fb = Fiber(b, [1] * len(b))
    got = [c for c, _ in fa & fb]
    exp = [c for c in a if any(c == d for d in b)]
    return got == exp
'''
d = tempfile.mkdtemp(); sys.path.insert(0, d)
def make(n_a, n_b, negate):
    an = [f"a{i}" for i in range(n_a)]; bn = [f"b{i}" for i in range(n_b)]
    pres = []
    if n_a > 1: pres.append(" < ".join(an))
    if n_b > 1: pres.append(" < ".join(bn))
    src = TEMPLATE.format(sig=", ".join(n + ": int" for n in an + bn), pres="\n".join("    pre: " + p for p in pres), post="not _" if negate else "_", a=", ".join(an), b=", ".join(bn))
    name = f"gen_{n_a}_{n_b}_{int(negate)}"
    open(os.path.join(d, name + ".py"), "w").write(src)
    return importlib.import_module(name).h
for (na, nb) in [(0, 2), (2, 2), (3, 2), (3,3)]:
    for neg in (False, True):
        h = make(na, nb, neg)
        st = collections.Counter(); t0 = time.time()
        msgs = run_checkables(analyze_function(h, AnalysisOptionSet(per_condition_timeout=60, per_path_timeout=60, max_uninteresting_iterations=10**9, report_all=True, stats=st, analysis_kind=[AnalysisKind.PEP316])))
        print(na, nb, neg, [(m.state.name, m.message) for m in msgs], dict(st), round(time.time() - t0, 2))
