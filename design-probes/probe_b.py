import stubs, io, contextlib
from fibertree import Fiber, Tensor, Payload, Codec
from fibertree.core.metrics import Metrics
from fibertree.model import TwoFingerIntersector, SkipAheadIntersector, LeaderFollowerIntersector, Format

def tf_ref(a, b):
    i = j = 0; n = 0
    while i < len(a) and j < len(b):
        n += 1
        if a[i] == b[j]: i += 1; j += 1
        elif a[i] < b[j]: i += 1
        else: j += 1
    return n

def isect(a0: int, a1: int, a2: int, b0: int, b1: int, b2: int) -> bool:
    """
    pre: 0 <= a0 < a1 < a2
    pre: 0 <= b0 < b1 < b2
    post: _
    """
    try: Metrics.endCollect()
    except Exception: pass
    a = Fiber([a0, a1, a2], [1, 1, 1]); a.getRankAttrs().setId("K")
    b = Fiber([b0, b1, b2], [1, 1, 1]); b.getRankAttrs().setId("K")
    tf = TwoFingerIntersector()
    Metrics.beginCollect()
    Metrics.trace("K", "intersect_0", consumable=True)
    Metrics.trace("K", "intersect_1", consumable=True)
    for _ in a & b: pass
    tf.addTraces(Metrics.consumeTrace("K", "intersect_0"), Metrics.consumeTrace("K", "intersect_1"))
    Metrics.endCollect()
    return tf.getNumIntersects() == tf_ref([a0, a1, a2], [b0, b1, b2])

def fmt(rh: int, fh: int, cb: int, pb: int, v0: int, v1: int, v2: int) -> bool:
    """
    pre: rh >= 0 and fh >= 0 and cb >= 0 and pb >= 0
    post: _
    """
    t = Tensor.fromUncompressed(["M", "K"], [[v0, v1], [0, v2]])
    f = Format(t, {"M": {"format": "U", "rhbits": rh, "pbits": pb}, "K": {"format": "C", "fhbits": fh, "cbits": cb, "pbits": pb}})
    nk = [len(x) for x in t.ranks[1].getFibers()]
    exp_k = sum(fh + (cb + pb) * n for n in nk)
    exp_m = rh + pb * 2
    return f.getRank("K") == exp_k and f.getRank("M") == exp_m and f.getTensor() == exp_k + exp_m

class Cache(dict):
    hit_count = 0; miss_count = 0
    def get(self, k, d=None):
        return dict.get(self, k, d)

def codec_uc(v00: int, v01: int, v02: int, v10: int, v11: int, v12: int) -> bool:
    """
    post: _
    """
    nest = [[v00, v01, v02], [v10, v11, v12]]
    t = Tensor.fromUncompressed(["M", "K"], nest)
    desc = ("U", "C")
    codec = Codec(desc, [True, True])
    out = codec.get_output_dict(t.getRankIds())
    ot = [[], [], []]
    with contextlib.redirect_stdout(io.StringIO()):
        codec.encode(-1, t.getRoot(), t.getRankIds(), out, ot, shape=[2, 3])
    # decode U,C: payloads_m = cumulative segment ends; coords_k, payloads_k
    ends = out["payloads_m"]; ck = out["coords_k"]; pk = out["payloads_k"]
    if len(ends) != 2: return False
    dec = [[0, 0, 0], [0, 0, 0]]
    start = 0
    for m in range(2):
        for i in range(start, ends[m]):
            dec[m][ck[i]] = pk[i]
        start = ends[m]
    return dec == nest

def eq_pair(a0: int, a1: int, va0: int, va1: int, b0: int, vb0: int) -> bool:
    """
    pre: a0 < a1
    post: _
    """
    A = Fiber([a0, a1], [va0, va1]); B = Fiber([b0], [vb0])
    ca = [(c, v) for c, v in [(a0, va0), (a1, va1)] if v != 0]
    cb = [(c, v) for c, v in [(b0, vb0)] if v != 0]
    same = len(ca) == len(cb) and all(any(x == y for y in cb) for x in ca)
    return (A == B) == same and (B == A) == same and (A == A)

def tup(a0: int, a1: int, b00: int, b01: int, b10: int, b11: int) -> bool:
    """
    pre: a0 < a1
    pre: (b00 < b10) or (b00 == b10 and b01 < b11)
    post: _
    """
    A = Fiber([a0, a1], [1, 2]); B = Fiber([(b00, b01), (b10, b11)], [3, 4])
    got = [c for c, _ in A & B]
    exp = [bc for bc in [(b00, b01), (b10, b11)] if bc[0] == a0 or bc[0] == a1]
    return got == exp
