import stubs
from fibertree import Fiber, Tensor, Payload, CoordPayload
from fibertree.core.fiber import CoordinateError
import fibertree.core.fiber as fm
from fibertree.model import Compute

def wf(f):
    cs = f.coords
    if len(cs) != len(f.payloads): return False
    for i in range(1, len(cs)):
        if not (cs[i-1] < cs[i]): return False
    for p in f.payloads:
        if isinstance(p, Fiber):
            if not wf(p): return False
        else:
            if not isinstance(p, Payload) or isinstance(p.value, Payload): return False
    return True

def snap(f):
    return [(c, snap(p) if isinstance(p, Fiber) else p.value) for c, p in zip(f.coords, f.payloads)]

def hist2(c0: int, c1: int, v0: int, v1: int, x: int, w: int, y: int, u: int) -> bool:
    """
    pre: c0 < c1
    post: _
    """
    f = Fiber([c0, c1], [v0, v1])
    # step 1: ref insert/assign
    r = f.getPayloadRef(x)
    r <<= w
    if not wf(f): return False
    # step 2: setitem at position 1 with new coord
    before = snap(f)
    try:
        f[1] = CoordPayload(y, u)
    except CoordinateError:
        if snap(f) != before: return False
    if not wf(f): return False
    # step 3: append
    before = snap(f)
    try:
        f.append(y, u)
    except AssertionError:
        if snap(f) != before: return False
    return wf(f)

class FakeRandom:
    def __init__(self, draws_f, draws_i):
        self.f = draws_f; self.i = draws_i; self.k = 0; self.seeded = []
    def seed(self, s):
        self.k = 0; self.seeded.append(s)
    def random(self):
        v = self.f[self.k % len(self.f)]; self.k += 1; return v
    def randint(self, a, b):
        v = self.i[self.k % len(self.i)]; self.k += 1
        return v

def rnd(b0: bool, b1: bool, b2: bool, i0: int, i1: int, i2: int, s: int) -> bool:
    """
    pre: 1 <= i0 <= 10 and 1 <= i1 <= 10 and 1 <= i2 <= 10
    post: _
    """
    # density 0.5: random() < 0.5 modelled by boolean outcomes
    fr = FakeRandom([0.25 if b else 0.75 for b in (b0, b0, b1, b1, b2, b2)], [i0, i0, i1, i1, i2, i2])
    old = fm.random
    fm.random = fr
    try:
        f1 = Fiber.fromRandom([3], [0.5], 10, seed=s)
        f2 = Fiber.fromRandom([3], [0.5], 10, seed=s)
    finally:
        fm.random = old
    if f1.coords != f2.coords: return False
    if [p.value for p in f1.payloads] != [p.value for p in f2.payloads]: return False
    return all(0 <= c < 3 for c in f1.coords)

def swaps(a0: int, a1: int, b0: int, b1: int, pa: int, pb: int, lat: int) -> bool:
    """
    pre: a0 < a1 and b0 < b1
    pre: lat >= 0
    pre: pa != 0 and pb != 0
    post: _
    """
    t = Tensor.fromFiber(rank_ids=["M", "K"], fiber=Fiber([0, 1], [Fiber([a0, a1], [pa, pa]), Fiber([b0, b1], [pb, pb])]))
    return Compute.numSwaps(t, 0, 2, lat) == lat * (2 + 4)

def ufmt(c0: int, c1: int, v0: int, v1: int, s: int) -> bool:
    """
    pre: 0 <= c0 < c1 < s <= 4
    post: _
    """
    t = Tensor.fromFiber(rank_ids=["K"], fiber=Fiber([c0, c1], [v0, v1]), shape=[s])
    t.setFormat("K", "U")
    got = [(c, p.value) for c, p in t.getRoot()]
    if len(got) != s: return False
    for i, (c, v) in enumerate(got):
        if c != i: return False
        e = v0 if i == c0 else (v1 if i == c1 else 0)
        if v != e: return False
    return True
