import io, contextlib, itertools
from fibertree import Tensor, Codec, Fiber

def enc(t, desc, shape=None):
    codec = Codec(tuple(desc), [True] * len(desc))
    names = t.getRankIds()
    output = codec.get_output_dict(names)
    ot = [list() for _ in range(len(desc) + 1)]
    with contextlib.redirect_stdout(io.StringIO()):
        codec.encode(-1, t.getRoot(), names, output, ot, shape=shape)
    return output, ot

def decode(out, names, desc, shape):
    """layout-only decoder -> dict point->value (nonzero)"""
    d = len(desc)
    cur = {}   # per rank cursors
    cpos = [0] * d; ppos = [0] * d
    res = {}
    def coords_of_fiber(i):
        f = desc[i]; S = shape[i]
        ck = out["coords_" + names[i].lower()]
        if f == "U":
            return None  # all positions
        if f == "B":
            bits = ck[cpos[i]:cpos[i] + S]; cpos[i] += S
            return [j for j, b in enumerate(bits) if b]
        return "C"
    def walk(i, prefix, count):
        """decode one fiber at rank i; count = number of elements if known (C) else None"""
        f = desc[i]; S = shape[i]
        pk = out["payloads_" + names[i].lower()]
        ck = out["coords_" + names[i].lower()]
        if f == "U":
            coords = list(range(S))
        elif f == "B":
            bits = ck[cpos[i]:cpos[i] + S]; cpos[i] += S
            coords = [j for j, b in enumerate(bits) if b]
        else:
            coords = ck[cpos[i]:cpos[i] + count]; cpos[i] += count
        leaf = (i == d - 1)
        if leaf:
            vals = pk[ppos[i]:ppos[i] + len(coords)]; ppos[i] += len(coords)
            for c, v in zip(coords, vals):
                if v != 0: res[tuple(prefix + [c])] = v
            return
        nxt = desc[i + 1]
        if nxt in ("C", "B"):
            ends = pk[ppos[i]:ppos[i] + len(coords)]; ppos[i] += len(coords)
            prev = 0
            for c, e in zip(coords, ends):
                walk(i + 1, prefix + [c], e - prev); prev = e
        else:
            for c in coords:
                walk(i + 1, prefix + [c], None)
    if desc[0] in ("C", "B"):
        n0 = out["payloads_root"][0]
    else:
        n0 = None
    walk(0, [], n0)
    return res

def content(t, nest, shape):
    res = {}
    for idx in itertools.product(*[range(s) for s in shape]):
        v = nest
        for i in idx: v = v[i]
        if v != 0: res[idx] = v
    return res

def nests(shape, vals=(0, 7)):
    n = 1
    for s in shape: n *= s
    for flat in itertools.product(vals, repeat=n):
        it = iter(flat)
        def build(dims):
            if len(dims) == 1: return [next(it) for _ in range(dims[0])]
            return [build(dims[1:]) for _ in range(dims[0])]
        yield build(list(shape))

for shape, names in (([2, 3], ["M", "K"]), ([2, 2, 2], ["M", "N", "K"])):
    print("shape", shape)
    for desc in itertools.product("UCB", repeat=len(shape)):
        tot = bad = 0; ex = None
        for nest in nests(shape):
            t = Tensor.fromUncompressed(names, nest)
            tot += 1
            try:
                out, ot = enc(t, desc)
                got = decode(out, names, desc, shape)
            except Exception as e:
                got = ("EXC", type(e).__name__, str(e)[:40])
            exp = content(t, nest, shape)
            if got != exp:
                bad += 1
                if ex is None: ex = (nest, got if not isinstance(got, dict) else sorted(got.items()), out if 'out' in dir() else None)
        print("".join(desc), "total", tot, "bad", bad, ("" if ex is None else str(ex)[:300]))
