import io, contextlib, itertools
from fibertree import Tensor, Codec
def enc(t, desc, shape=None):
    codec = Codec(tuple(desc), [True]*len(desc))
    names = t.getRankIds()
    output = codec.get_output_dict(names)
    ot = [list() for _ in range(len(desc)+1)]
    with contextlib.redirect_stdout(io.StringIO()):
        codec.encode(-1, t.getRoot(), names, output, ot, shape=shape)
    return output, ot
t = Tensor.fromUncompressed(["M","K"], [[1,0,2],[0,0,0],[0,3,0]])
for d in itertools.product("UCB", repeat=2):
    try:
        o, ot = enc(t, d)
        print(d, o)
    except Exception as e:
        print(d, "EXC", type(e).__name__, e)
