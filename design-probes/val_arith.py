import itertools, copy
from fibertree import Tensor, Fiber, Payload
from fibertree.model import Format
rep = {}
def rec(name, ok, info):
    r = rep.setdefault(name, [0, 0, None]); r[0] += 1
    if not ok:
        r[1] += 1
        if r[2] is None: r[2] = info
S = 4
def fibers(maxn):
    for n in range(0, maxn + 1):
        for coords in itertools.combinations(range(S), n):
            for vals in itertools.product([0, 5, -5], repeat=n):
                yield coords, vals
def dense(f): return [Payload.get(f.getPayload(i)) for i in range(S)]
def dn(c, v):
    d = [0] * S
    for x, y in zip(c, v): d[x] = y
    return d
fl = list(fibers(2))
for (ac, av), (bc, bv) in itertools.product(fl, repeat=2):
    mk = lambda c, v: Fiber(list(c), list(v), shape=S)
    da, db = dn(ac, av), dn(bc, bv)
    for name, op, exp in (("f+g", lambda a, b: a + b, [x + y for x, y in zip(da, db)]), ("f*g", lambda a, b: a * b, [x * y for x, y in zip(da, db)])):
        try:
            a, b = mk(ac, av), mk(bc, bv)
            r = op(a, b)
            rec(name, dense(r) == exp and dense(a) == da and dense(b) == db, (ac, av, bc, bv, dense(r), exp))
        except Exception as e: rec(name, False, (ac, av, bc, bv, type(e).__name__, str(e)[:60]))
    for name, iop, exp in (("f+=g", lambda a, b: a.__iadd__(b), [x + y for x, y in zip(da, db)]), ("f*=g", lambda a, b: a.__imul__(b), [x * y for x, y in zip(da, db)])):
        try:
            a, b = mk(ac, av), mk(bc, bv)
            r = iop(a, b)
            rec(name, r is a and dense(a) == exp and dense(b) == db, (ac, av, bc, bv, dense(a), exp))
        except Exception as e: rec(name, False, (ac, av, bc, bv, type(e).__name__, str(e)[:60]))
for (ac, av) in fl:
    for s in (0, 2, -5):
        da = dn(ac, av)
        mk = lambda: Fiber(list(ac), list(av), shape=S)
        for name, fn, exp in (("f+s", lambda a: a + s, [x + s for x in da]), ("s+f", lambda a: s + a, [x + s for x in da]), ("f*s", lambda a: a * s, [x * s for x in da]), ("s*f", lambda a: s * a, [x * s for x in da])):
            try:
                a = mk(); r = fn(a)
                rec(name, dense(r) == exp and dense(a) == da, (ac, av, s, dense(r), exp))
            except Exception as e: rec(name, False, (ac, av, s, type(e).__name__, str(e)[:60]))
        for name, fn, exp in (("f+=s", lambda a: a.__iadd__(s), [x + s for x in da]), ("f*=s", lambda a: a.__imul__(s), [x * s for x in da])):
            try:
                a = mk(); r = fn(a)
                rec(name, r is a and dense(a) == exp, (ac, av, s, dense(a), exp))
            except Exception as e: rec(name, False, (ac, av, s, type(e).__name__, str(e)[:60]))
for k, v in rep.items(): print(k, "total", v[0], "bad", v[1], "" if v[2] is None else str(v[2])[:300])
