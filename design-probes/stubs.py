import fibertree
from fibertree.core.fiber import Fiber
from fibertree.core.payload import Payload
from fibertree.core.rank import Rank
from fibertree.core.rank_attrs import RankAttrs
from fibertree.core.tensor import Tensor
from fibertree.core.coord_payload import CoordPayload
for cls in (Fiber, Payload, Rank, RankAttrs, Tensor, CoordPayload):
    if '__deepcopy__' in cls.__dict__:
        delattr(cls, '__deepcopy__')
import builtins, fibertree.core.fiber as _fm
_INF = 2**63
class _FloatMeta(type):
    def __instancecheck__(cls, obj): return isinstance(obj, builtins.float)
    def __subclasscheck__(cls, sub): return issubclass(sub, builtins.float)
class _Float(metaclass=_FloatMeta):
    def __new__(cls, x=0.0):
        if isinstance(x, str) and x == "inf":
            return _INF
        return builtins.float(x)
_fm.float = _Float
