"""Value-returning transforms as harness operations (shared by C02, C09, C10, C14).

apply_xf(name, t, opt, a) -> result tensor.  `a` = the transform's symbolic integer arguments (may be empty).
"""
import copy

from fvsym.rt import *  # noqa


def xf_nargs(name, opt):
    if name in ("splitNonUniform",):
        return opt["k"]
    if name in ("updateCoords_inc", "updateCoords_dec", "updatePayloads"):
        return 1
    return 0


def xf_pre(name, opt, ns):
    if name == "splitNonUniform":
        return chain_pre(ns)
    return []


def apply_xf(name, t, opt, a=()):
    d = opt.get("depth", 0)
    if name == "splitUniform" and opt.get("via"):
        # the rank is named by its id instead of (or, for "both", in addition to a *different*) depth: the rank id decides
        kw = dict(rankid=t.getRankIds()[d])
        if opt["via"] == "both":
            kw["depth"] = 0 if d != 0 else 1
        return t.splitUniform(opt["step"], relativeCoords=opt.get("rel", False), **kw)
    if name == "splitUniform":
        return t.splitUniform(opt["step"], depth=d, relativeCoords=opt.get("rel", False), pre_halo=opt.get("pre", 0), post_halo=opt.get("post", 0))
    if name == "splitNonUniform":
        return t.splitNonUniform(list(a), depth=d, relativeCoords=opt.get("rel", False))
    if name == "splitEqual":
        return t.splitEqual(opt["size"], depth=d, relativeCoords=opt.get("rel", False))
    if name == "splitUnEqual":
        return t.splitUnEqual(list(opt["sizes"]), depth=d, relativeCoords=opt.get("rel", False))
    if name == "truediv":
        return t / opt["parts"]
    if name == "floordiv":
        return t // opt["parts"]
    if name == "swizzleRanks":
        ids = t.getRankIds()
        return t.swizzleRanks([ids[i] for i in opt["perm"]])
    if name == "swapRanks":
        return t.swapRanks(depth=d)
    if name == "flattenRanks":
        return t.flattenRanks(depth=d, levels=opt.get("levels", 1), coord_style=opt.get("style", "tuple"))
    if name == "unflattenRanks":
        return t.unflattenRanks(depth=d, levels=opt.get("levels", 1))
    if name == "flatten_unflatten":
        return t.flattenRanks(depth=d, levels=opt.get("levels", 1)).unflattenRanks(depth=d, levels=opt.get("levels", 1))
    if name == "mergeRanks":
        return t.mergeRanks(depth=d, levels=opt.get("levels", 1), coord_style=opt.get("style", "tuple"))
    if name == "updateCoords_inc":
        o = a[0]
        return t.updateCoords(lambda i, c, p: c + o, depth=d)
    if name == "updateCoords_dec":
        o = a[0]
        return t.updateCoords(lambda i, c, p: o - c, depth=d)
    if name == "updatePayloads":
        w = a[0]
        return t.updatePayloads(lambda i, c, p: p + w, depth=d)
    if name == "deepcopy":
        return copy.deepcopy(t)
    if name == "swap_swap":
        return t.swapRanks(depth=d).swapRanks(depth=d)
    if name == "split_flatten":
        return t.splitUniform(opt["step"], depth=d).flattenRanks(depth=d, coord_style="absolute")
    raise KeyError(name)
