"""Environment stubs S3 (random), S4 (yaml + open) — constrained only by the documented contracts."""
import builtins
import copy


class Draw:
    """outcome of random.random(): only ever compared with a density"""

    def __init__(self, below):
        self.below = below

    def __lt__(self, d):
        if d >= 1:
            return True
        if d <= 0:
            return False
        return self.below


class FakeRandom:
    """random as seen from fibertree.core.fiber: seed(s) rewinds the per-seed sequence; draws are symbolic values supplied by the harness.
    Contract used: same seed => same sequence; 0 <= random() < 1 (so < 1.0 always, < 0.0 never); a <= randint(a, b) <= b."""

    def __init__(self, seqs):
        # seqs: list of (seed, [bools], [ints])
        self.seqs = seqs
        self.cur = None
        self.bi = 0
        self.ii = 0
        self.violated = False

    def seed(self, s):
        self.cur = None
        for k in range(len(self.seqs)):
            if self.seqs[k][0] == s and self.cur is None:
                self.cur = k
        self.bi = 0
        self.ii = 0

    def random(self):
        bs = self.seqs[self.cur][1]
        b = bs[self.bi % len(bs)] if bs else False
        self.bi += 1
        return Draw(b)

    def randint(self, a, b):
        xs = self.seqs[self.cur][2]
        v = xs[self.ii % len(xs)]
        self.ii += 1
        if not (a <= v <= b):
            self.violated = True     # the harness precondition keeps draws inside [a, b]
        return v


class _MemFile:
    def __init__(self, store, name, mode):
        self.store, self.name, self.mode = store, name, mode

    def __enter__(self):
        return self

    def __exit__(self, *a):
        return False


class FakeYaml:
    """yaml.dump / yaml.safe_load as an in-memory store with contract load(dump(d)) == d (deep structural copy of
    dict/list/tuple/int/str/None).  The text layer of PyYAML is outside the solver's reach and is exercised concretely."""

    class YAMLError(Exception):
        pass

    def __init__(self):
        self.files = {}

    def dump(self, data, stream):
        self.files[stream.name] = copy.deepcopy(data)

    def safe_load(self, stream):
        return copy.deepcopy(self.files[stream.name])

    def open(self, name, mode="r", *a, **k):
        return _MemFile(self, name, mode)


class patched:
    """context manager: install fakes into module namespaces, always restore"""

    def __init__(self, mods, **names):
        self.mods, self.names, self.saved = mods, names, []

    def __enter__(self):
        for m in self.mods:
            for k, v in self.names.items():
                self.saved.append((m, k, m.__dict__.get(k, _MISSING)))
                setattr(m, k, v)
        return self

    def __exit__(self, *a):
        for m, k, old in reversed(self.saved):
            if old is _MISSING:
                delattr(m, k)
            else:
                setattr(m, k, old)
        return False


_MISSING = object()
