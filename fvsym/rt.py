"""Runtime helpers shared by the harness functions (oracles written without hashing symbolic values)."""
import sys

import os
_REPO = os.environ.get("FVSYM_REPO") or "/repo"
if _REPO not in sys.path:
    sys.path.insert(0, _REPO)

from fibertree import Fiber, Payload, Tensor, Rank, CoordPayload, Metrics  # noqa: E402
from fibertree.core.rank_attrs import RankAttrs  # noqa: E402

LAST_FAIL = None
BIG = 2 ** 62


def fail(msg):
    """Record why a harness returned False (shown by replays) and return False."""
    global LAST_FAIL
    LAST_FAIL = msg
    return False


def inc(xs):
    """strictly increasing"""
    for i in range(len(xs) - 1):
        if not (xs[i] < xs[i + 1]):
            return False
    return True


def bounded(xs, lo=-BIG, hi=BIG):
    for x in xs:
        if not (lo < x < hi):
            return False
    return True


def pv(p):
    """unboxed value of a leaf payload"""
    if isinstance(p, Payload):
        return p.value
    return p


def raw(f):
    """Deep raw snapshot of a fiber: list of (coord, value | nested list)."""
    out = []
    for c, p in zip(f.coords, f.payloads):
        if isinstance(p, Fiber):
            out.append((c, raw(p)))
        else:
            out.append((c, pv(p)))
    return out


def raw_lens_ok(f):
    if len(f.coords) != len(f.payloads):
        return False
    for p in f.payloads:
        if isinstance(p, Fiber) and not raw_lens_ok(p):
            return False
    return True


def content(f, default=0, prefix=()):
    """List of (point, value) for every leaf value != default, by a raw walk (lexicographic for wf trees)."""
    out = []
    for c, p in zip(f.coords, f.payloads):
        if isinstance(p, Fiber):
            out.extend(content(p, default, prefix + (c,)))
        else:
            v = pv(p)
            if v != default:
                out.append((prefix + (c,), v))
    return out


def wf(f, depth=None):
    """Well-formedness (C01).  Returns the uniform leaf depth (>=1), 0 for 'unknown depth' (empty), or -1 if broken.

    depth: expected number of levels below and including f, when known (then empty fibers are fine at any level).
    """
    if not isinstance(f.coords, list) or not isinstance(f.payloads, list):
        return -1
    if len(f.coords) != len(f.payloads):
        return -1
    for i in range(len(f.coords) - 1):
        if not (f.coords[i] < f.coords[i + 1]):
            return -1
    d = 0
    for p in f.payloads:
        if isinstance(p, Fiber):
            if depth is not None and depth <= 1:
                return -1
            s = wf(p, None if depth is None else depth - 1)
            if s < 0:
                return -1
            s = s + 1 if s > 0 else 0
        else:
            if depth is not None and depth != 1:
                return -1
            if not isinstance(p, Payload):
                return -1
            if isinstance(p.value, (Payload, Fiber)):
                return -1
            s = 1
        if s > 0:
            if d == 0:
                d = s
            elif d != s:
                return -1
    return d


def fibers_at_depth(root):
    """list of lists: fibers found at each depth by a raw DFS"""
    levels = []

    def walk(f, d):
        while len(levels) <= d:
            levels.append([])
        levels[d].append(f)
        for p in f.payloads:
            if isinstance(p, Fiber):
                walk(p, d + 1)

    walk(root, 0)
    return levels


def same_objects(xs, ys):
    """xs and ys hold exactly the same objects (by identity), each once"""
    if len(xs) != len(ys):
        return False
    for x in xs:
        n = 0
        for y in ys:
            if x is y:
                n += 1
        if n != 1:
            return False
    for y in ys:
        n = 0
        for x in xs:
            if x is y:
                n += 1
        if n != 1:
            return False
    return True


def mirror(t):
    """Rank bookkeeping mirrors the tree (C02)."""
    ranks = t.ranks
    root = t.getRoot()
    if len(ranks) == 0:
        return True
    if len(ranks[0].fibers) != 1 or ranks[0].fibers[0] is not root:
        return fail("root is not the single fiber of rank 0")
    levels = fibers_at_depth(root)
    if len(levels) > len(ranks):
        return fail("tree deeper than rank list")
    for i, r in enumerate(ranks):
        lv = levels[i] if i < len(levels) else []
        if not same_objects(r.fibers, lv):
            return fail("rank %d lists %d fibers, tree has %d at that depth (or identities differ)" % (i, len(r.fibers), len(lv)))
        for f in lv:
            if f.getOwner() is not r:
                return fail("fiber at depth %d does not report rank %d as owner" % (i, i))
        nxt = ranks[i + 1] if i + 1 < len(ranks) else None
        if r.next_rank is not nxt:
            return fail("rank %d not chained to rank %d" % (i, i + 1))
    return True


def rank_sizes(t):
    return [len(r.fibers) for r in t.ranks]


def mk_fiber(coords, vals, **kw):
    return Fiber(list(coords), list(vals), **kw)


def build_tree(shape_sk, xs, pos=0):
    """Build a fiber tree from a skeleton and a flat list of symbolic ints.

    shape_sk: int n  -> leaf fiber with n elements (consumes n coords then n values)
              list   -> interior fiber with one child per entry (consumes len coords, then the children)
    Returns (fiber, next_pos, list_of_coordinate_lists) ; the coordinate lists are what must be strictly increasing.
    """
    if isinstance(shape_sk, int):
        n = shape_sk
        cs = list(xs[pos:pos + n])
        vs = list(xs[pos + n:pos + 2 * n])
        return Fiber(cs, vs), pos + 2 * n, [cs]
    n = len(shape_sk)
    cs = list(xs[pos:pos + n])
    pos += n
    kids = []
    cls = [cs]
    for s in shape_sk:
        k, pos, kc = build_tree(s, xs, pos)
        kids.append(k)
        cls.extend(kc)
    return Fiber(cs, kids), pos, cls


def tree_params(shape_sk, prefix="x"):
    """Number of ints a skeleton consumes"""
    if isinstance(shape_sk, int):
        return 2 * shape_sk
    return len(shape_sk) + sum(tree_params(s) for s in shape_sk)


def tree_pre(shape_sk, names, pos=0):
    """Precondition strings (strictly increasing coordinates per fiber, bounded) for a skeleton over parameter names."""
    pre = []
    if isinstance(shape_sk, int):
        cs = names[pos:pos + shape_sk]
        for i in range(len(cs) - 1):
            pre.append("%s < %s" % (cs[i], cs[i + 1]))
        return pre, pos + 2 * shape_sk, cs
    n = len(shape_sk)
    cs = names[pos:pos + n]
    allc = list(cs)
    for i in range(n - 1):
        pre.append("%s < %s" % (cs[i], cs[i + 1]))
    pos += n
    for s in shape_sk:
        p, pos, c2 = tree_pre(s, names, pos)
        pre.extend(p)
        allc.extend(c2)
    return pre, pos, allc


def tree_pin(shape_sk, names, pos=0, out=None):
    """name -> value that pins every coordinate of the skeleton: the i-th coordinate of *each* fiber is i (ascending inside every fiber,
    inside any shape >= the widest fiber).  Used for the cheaper quick-tier counterparts of obligations whose fully symbolic form is slow."""
    out = {} if out is None else out
    if isinstance(shape_sk, int):
        for i, c in enumerate(names[pos:pos + shape_sk]):
            out[c] = i
        return out, pos + 2 * shape_sk
    n = len(shape_sk)
    for i, c in enumerate(names[pos:pos + n]):
        out[c] = i
    pos += n
    for s in shape_sk:
        _, pos = tree_pin(s, names, pos, out)
    return out, pos


def tree_depth(shape_sk):
    if isinstance(shape_sk, int):
        return 1
    return 1 + max([tree_depth(s) for s in shape_sk] or [1])


def names(prefix, n):
    return ["%s%d" % (prefix, i) for i in range(n)]


def chain_pre(ns):
    return ["%s < %s" % (ns[i], ns[i + 1]) for i in range(len(ns) - 1)]


def bound_pre(ns, lo=None, hi=None):
    out = []
    for n in ns:
        if lo is not None and hi is not None:
            out.append("%d <= %s < %d" % (lo, n, hi))
        elif lo is not None:
            out.append("%d <= %s" % (lo, n))
        elif hi is not None:
            out.append("%s < %d" % (n, hi))
    return out


def reset_metrics():
    """A3: Metrics is global class state; every harness that touches it starts from a clean slate."""
    try:
        if Metrics.isCollecting():
            Metrics.endCollect()
    except Exception:  # noqa
        pass
    Metrics.collecting = False


def build_box(dims, vals, pos=0):
    """Dense box with *concrete* coordinates 0..dim-1 at every level and the given (symbolic) leaf values, built with the
    Fiber constructor so a value 0 stays an explicit default and an all-zero row stays an all-default sub-fiber."""
    if len(dims) == 1:
        n = dims[0]
        return Fiber(list(range(n)), list(vals[pos:pos + n])), pos + n
    kids = []
    for _ in range(dims[0]):
        k, pos = build_box(dims[1:], vals, pos)
        kids.append(k)
    return Fiber(list(range(dims[0])), kids), pos


def box_size(dims):
    n = 1
    for d in dims:
        n *= d
    return n


RANK_IDS = ["N", "M", "K", "J"]


def rank_ids_for(d):
    return RANK_IDS[4 - d:]


def _subtree_value_names(shape_sk, names_, pos=0):
    """-> (list of leaf-value names of this subtree, next_pos, list of per-non-root-fiber (has_elements, value names))"""
    if isinstance(shape_sk, int):
        vals = names_[pos + shape_sk:pos + 2 * shape_sk]
        return list(vals), pos + 2 * shape_sk, []
    n = len(shape_sk)
    pos += n
    allv, subs = [], []
    for s_ in shape_sk:
        v, pos, sub = _subtree_value_names(s_, names_, pos)
        allv += v
        subs += sub
        nonzero_len = (s_ > 0) if isinstance(s_, int) else (len(s_) > 0)
        if nonzero_len:
            subs.append(v)
    return allv, pos, subs


def alldefault_sub_expr(shape_sk, names_):
    """Python expression (over the parameter names) that is true iff some non-root fiber of the tree stores elements but
    holds only default leaves (an 'empty' payload that is not zero-length)."""
    _, _, subs = _subtree_value_names(shape_sk, names_)
    terms = []
    for v in subs:
        terms.append("(" + " and ".join("%s == 0" % x for x in v) + ")" if v else "True")
    return " or ".join(terms) if terms else "False"
