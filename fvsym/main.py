import argparse
import os
import sys

sys.path.insert(0, os.environ.get("FVSYM_REPO") or "/repo")
sys.dont_write_bytecode = True


def main():
    ap = argparse.ArgumentParser()
    ap.add_argument("prop")
    ap.add_argument("--tier", default=os.environ.get("VERIF_TIER") or "quick", choices=["quick", "thorough"])
    ap.add_argument("--jobs", type=int, default=None)
    ap.add_argument("--only", default=None)
    ap.add_argument("--replay", default=None)
    ap.add_argument("--list", action="store_true")
    ap.add_argument("--budget", type=float, default=None, help="development only: cap every obligation's budget (implies partial run)")
    ap.add_argument("-v", action="store_true")
    a = ap.parse_args()
    from fvsym import engine
    if a.replay:
        ok, txt = engine.replay_file(a.replay)
        print(txt)
        if ok:
            print("VIOLATION property=%s replay=%s" % (a.prop, a.replay))
            return 1
        return 0 if ok is False else 3
    if a.list:
        import importlib
        pm = importlib.import_module("fvsym.props.%s" % a.prop.lower())
        for o in pm.obligations(a.tier):
            print(o.name, o.fn, o.sk, o.params, o.pre)
        return 0
    try:
        seed = int(os.environ.get("VERIF_SEED") or 0)
    except ValueError:
        seed = 0
    if a.budget:
        engine.BUDGET_CAP = a.budget
        a.only = a.only or "*"
    return engine.run_property(a.prop.upper(), a.tier, a.jobs, a.only, seed, a.v)


if __name__ == "__main__":
    sys.exit(main())
