"""Stubs S1/S2 (see DESIGN.md 1.4).  install()/uninstall() are idempotent.

S1  structural deepcopy instead of the pickle round trip in every __deepcopy__
    (pickling a CrossHair proxy raises "ctypes objects containing pointers cannot
    be pickled").  The library's *call sites* of deepcopy stay real.
S2  float("inf") as seen from fibertree.core.fiber is the integer sentinel 2**63
    (a float compared with a symbolic int drags z3's FP theory in: 13 s/query).
Replays run with both removed.
"""
import builtins
import sys

import os
sys.path.insert(0, os.environ.get("FVSYM_REPO") or "/repo")

INF = 2 ** 63
_saved = {}
_installed = False


class _FloatMeta(type):
    def __instancecheck__(cls, obj):
        return isinstance(obj, builtins.float)

    def __subclasscheck__(cls, sub):
        return issubclass(sub, builtins.float)


class _Float(metaclass=_FloatMeta):
    def __new__(cls, x=0.0):
        if isinstance(x, str) and x == "inf":
            return INF
        return builtins.float(x)


def _classes():
    from fibertree.core.fiber import Fiber
    from fibertree.core.payload import Payload
    from fibertree.core.rank import Rank
    from fibertree.core.rank_attrs import RankAttrs
    from fibertree.core.tensor import Tensor
    from fibertree.core.coord_payload import CoordPayload
    return (Fiber, Payload, Rank, RankAttrs, Tensor, CoordPayload)


def install():
    global _installed
    if _installed:
        return
    import fibertree.core.fiber as fm
    for cls in _classes():
        if "__deepcopy__" in cls.__dict__:
            _saved[cls] = cls.__dict__["__deepcopy__"]
            delattr(cls, "__deepcopy__")
    fm.float = _Float
    _installed = True


def uninstall():
    global _installed
    if not _installed:
        return
    import fibertree.core.fiber as fm
    for cls, f in _saved.items():
        setattr(cls, "__deepcopy__", f)
    _saved.clear()
    if "float" in fm.__dict__:
        del fm.float
    _installed = False


def active():
    return _installed


STUB_TEXT = [
    "S1: structural copy.deepcopy in place of the pickle round trip inside the six __deepcopy__ overrides (call sites of deepcopy stay real; replays use real pickle)",
    "S2: float('inf') inside fibertree.core.fiber is the integer sentinel 2**63; harnesses assume |coord| < 2**62",
]
