"""python -m fvsym.replay <file.json>: run one stored input concretely against /repo, no S1/S2 stubs.
exit 1 = the property is violated (harness returned False or an exception escaped), 0 = holds."""
import importlib
import json
import sys
import traceback

import os
sys.path.insert(0, os.environ.get("FVSYM_REPO") or "/repo")
sys.dont_write_bytecode = True


def main(path):
    with open(path) as f:
        d = json.load(f)
    pm = importlib.import_module("fvsym.props.%s" % d["property"].lower())
    fn = getattr(pm, d["fn"])
    try:
        ret = fn(d["sk"], *d["args"])
    except Exception as e:  # noqa
        tb = traceback.extract_tb(e.__traceback__)
        where = "%s:%d" % (tb[-1].filename, tb[-1].lineno) if tb else ""
        print("REPRODUCED %s %s: exception %s: %s at %s" % (d["property"], d.get("obligation"), type(e).__name__, e, where))
        return 1
    if ret:
        print("NOT-REPRODUCED %s %s: harness returned %r" % (d["property"], d.get("obligation"), ret))
        return 0
    why = getattr(pm, "LAST_FAIL", None) or getattr(importlib.import_module("fvsym.rt"), "LAST_FAIL", None)
    print("REPRODUCED %s %s: property false on args=%s%s" % (d["property"], d.get("obligation"), d["args"],
                                                           (" (%s)" % (why,)) if why else ""))
    return 1


if __name__ == "__main__":
    sys.exit(main(sys.argv[1]))
