"""Public mutators as harness operations (shared by C01, C02, C10).

An op is applied to a pre-state (root fiber f of depth d, optional owning tensor t) with a list of symbolic
integer arguments.  apply(name, d, f, t, a) returns "ok", "rejected" (order violation -> tree must be unchanged)
or "error" (another exception class the library raised; tree must still be well-formed).
"""
from fibertree.core.fiber import CoordinateError
from fvsym.rt import *  # noqa


def _leafval(d, w, c1=None):
    """type-consistent payload for a fiber of depth d (A4)"""
    if d == 1:
        return w
    k = Fiber([c1], [w])
    for _ in range(d - 2):
        k = Fiber([c1], [k])
    return k


# name -> (number of symbolic args as a function of depth, extra args spec)
def nargs(name, d, opt=None):
    if name in ("ref_assign", "ref_add"):
        return d + 1
    if name in ("ref_add_elem", "ref_assign_elem", "iadd_elem"):
        return d + 2
    if name in ("ref_prefix", "posref"):
        return 1
    if name in ("ref_startpos", "posref_startpos"):
        return 2
    if name in ("append", "insert_dep", "insertOrLookup_dep"):
        return 2 if d == 1 else 3
    if name == "extend":
        n = opt["n"]
        return 2 * n if d == 1 else 3 * n
    if name == "setitem_cp":
        return 2 if d == 1 else 3
    if name == "setitem_val":
        return 1 if d == 1 else 2
    if name == "setitem_coord":
        return 1
    if name in ("iadd_s", "imul_s"):
        return 1
    if name in ("iadd_f", "imul_f", "ilshift_f"):
        return 2 * opt["n"]
    if name == "populate":
        return 4 * opt["n"]        # coords, values of the source, selector, written value per offered ref
    if name == "range_shape_ref":
        return 2
    if name == "shape_ref":
        return 0
    if name in ("upd_coords_inc", "upd_coords_dec"):
        return 1
    if name == "upd_payloads":
        return 1
    if name == "upd_coords_table":
        return opt["n"]
    if name in ("clear", "clear_sub"):
        return 0
    if name == "populate2":
        return 5
    if name == "populate_ref":
        return d + 2
    raise KeyError(name)


def arg_pre(name, d, opt, ns):
    """preconditions on the op's own argument names"""
    if name == "extend":
        return chain_pre(ns[:opt["n"]])
    if name in ("iadd_f", "imul_f", "ilshift_f"):
        return chain_pre(ns[:opt["n"]])
    if name == "populate":
        n = opt["n"]
        return chain_pre(ns[:n]) + ["0 <= %s <= 2" % s for s in ns[2 * n:3 * n]]
    if name == "populate2":
        return ["0 <= %s <= 2" % ns[3]]
    if name == "populate_ref":
        return ["0 <= %s <= 2" % ns[-2]]
    if name == "range_shape_ref":
        return ["0 <= %s - %s <= %d" % (ns[1], ns[0], opt.get("span", 3))]
    if name == "upd_coords_table":
        # an arbitrary *injective* coordinate map on the stored coordinates ("unique is not checked": the caller owes injectivity)
        return ["%s != %s" % (ns[i], ns[j]) for i in range(len(ns)) for j in range(i + 1, len(ns))]
    return []


class PairingError(Exception):
    pass


def apply(name, d, f, t, a, opt=None):
    try:
        _apply(name, d, f, t, a, opt or {})
    except CoordinateError:
        return "rejected"
    except AssertionError as e:
        if "monotonically increasing" in str(e):
            return "rejected"
        return "error"
    except (IndexError, TypeError, ValueError, KeyError, AttributeError):
        return "error"
    except PairingError as e:
        return "pairing: %s" % e
    return "ok"


def _apply(name, d, f, t, a, opt):
    if name == "ref_assign":
        r = f.getPayloadRef(*a[:d])
        r <<= a[d]
    elif name == "ref_add":
        r = f.getPayloadRef(*a[:d])
        r += a[d]
    elif name in ("ref_add_elem", "ref_assign_elem"):
        # the right operand is an *element* (the CoordPayload a fiber hands out for g[pos]), not a bare value or box
        g = Fiber([a[d]], [a[d + 1]])
        r = f.getPayloadRef(*a[:d])
        if name == "ref_add_elem":
            r += g[0]
        else:
            r <<= g[0]
    elif name == "iadd_elem":
        g = Fiber([a[d]], [a[d + 1]])
        f += g[0]
    elif name == "ref_prefix":
        f.getPayloadRef(a[0])
    elif name in ("ref_startpos", "posref_startpos") and any(f.coords[i] == a[0] for i in range(min(opt["s"], len(f.coords)))):
        # a search-start hint that skips the very element it looks for is outside the contract (getPayload asserts coords[start_pos] <= coord);
        # a hint that merely points past the place where a *missing* coordinate belongs is handled (the insertion re-searches) and is in scope
        return
    elif name == "ref_startpos":
        r = f.getPayloadRef(a[0], start_pos=opt["s"])
        if d == 1:
            r <<= a[1]
    elif name == "posref_startpos":
        f.getPositionRef(a[0], start_pos=opt["s"])
    elif name == "posref":
        f.getPositionRef(a[0])
    elif name == "append":
        f.append(a[0], _leafval(d, a[1], a[2] if d > 1 else None))
    elif name == "extend":
        n = opt["n"]
        cs = list(a[:n])
        if d == 1:
            g = Fiber(cs, list(a[n:2 * n]))
        else:
            g = Fiber(cs, [_leafval(d, a[n + i], a[2 * n + i]) for i in range(n)])
        f.extend(g)
    elif name == "insert_dep":
        f.insert(a[0], _leafval(d, a[1], a[2] if d > 1 else None))              # deprecated spelling, still public
    elif name == "insertOrLookup_dep":
        r = f.insertOrLookup(a[0], _leafval(d, a[1], a[2] if d > 1 else None))
        if not any(p is r for p in f.payloads):
            raise PairingError("insertOrLookup returned a payload that is not stored in the fiber")
    elif name == "setitem_cp":
        tgt = t if (opt.get("via") == "tensor" and t is not None) else f      # Tensor.__setitem__ delegates to the root fiber
        tgt[opt["pos"]] = CoordPayload(a[0], _leafval(d, a[1], a[2] if d > 1 else None))
    elif name == "setitem_val":
        f[opt["pos"]] = _leafval(d, a[0], a[1] if d > 1 else None)
    elif name == "setitem_coord":
        f[opt["pos"]] = CoordPayload(a[0], None)
    elif name == "iadd_s":
        f += a[0]
    elif name == "imul_s":
        f *= a[0]
    elif name in ("iadd_f", "imul_f", "ilshift_f"):
        n = opt["n"]
        g = Fiber(list(a[:n]), list(a[n:2 * n]))
        if name == "iadd_f":
            f += g
        elif name == "imul_f":
            f *= g
        else:
            f <<= g
    elif name == "populate":
        n = opt["n"]
        g = Fiber(list(a[:n]), list(a[n:2 * n]))
        sel = a[2 * n:3 * n]
        ws = a[3 * n:4 * n]
        k = 0
        for c, (ref, p) in f << g:
            if k < n:
                if sel[k] == 1:
                    ref <<= ws[k]
                elif sel[k] == 2:
                    ref += ws[k]
            k += 1
    elif name == "range_shape_ref":
        for c, p in f.iterRangeShapeRef(a[0], a[1]):
            pass
    elif name == "shape_ref":
        for c, p in f.iterShapeRef():
            pass
    elif name == "upd_coords_inc":
        o = a[0]
        f.updateCoords(lambda i, c, p: c + o, depth=opt.get("depth", 0))
    elif name == "upd_coords_dec":
        o = a[0]
        f.updateCoords(lambda i, c, p: o - c, depth=opt.get("depth", 0))
    elif name == "upd_payloads":
        w = a[0]
        f.updatePayloads(lambda i, c, p: p + w, depth=opt.get("depth", 0))
    elif name == "upd_coords_table":
        # the new coordinate of the k-th stored element is the symbolic a[k]: any injective map, monotone or not
        old = list(f.coords)
        olp = list(f.payloads)
        new = list(a)
        def cb(i, c, p):
            for k in range(len(old)):
                if c == old[k]:
                    return new[k]
            return c
        f.updateCoords(cb)
        if len(f.coords) != len(old):
            raise PairingError("updateCoords changed the number of elements")
        for k in range(len(old)):
            hit = [j for j in range(len(f.coords)) if f.coords[j] == new[k]]
            if len(hit) != 1 or f.payloads[hit[0]] is not olp[k]:
                raise PairingError("after updateCoords the payload of the element moved to %r is not the one it had" % (new[k],))
    elif name == "clear":
        f.clear()
    elif name == "clear_sub":
        # clearing a *non-root* fiber (the last element's sub-fiber): what it held leaves the lower ranks, its equal-content siblings stay
        if len(f.payloads) and isinstance(f.payloads[-1], Fiber):
            f.payloads[-1].clear()
    elif name == "populate2":
        _apply_populate2(f, a)
    elif name == "populate_ref":
        # top-level populate whose body only reaches *below* the offered sub-fiber: it obtains a reference at a deeper point and
        # (selector) leaves it unwritten, or writes w (w may be the default)
        g = Fiber([a[0]], [1])
        sel, w = a[d], a[d + 1]
        for m, (zk, av) in f << g:
            if sel >= 1:
                r = zk.getPayloadRef(*a[1:d])
                if sel == 2:
                    r <<= w
    else:
        raise KeyError(name)


def _apply_populate2(f, a):
    g = Fiber([a[0]], [Fiber([a[1]], [a[2]])])
    for m, (zk, ak) in f << g:
        for k, (zref, av) in zk << ak:
            if a[3] == 1:
                zref <<= a[4]
            elif a[3] == 2:
                zref += a[4]
