"""C10 — value-returning operations never disturb or alias their operands; read-only operations are pure."""
import copy

from fvsym.engine import Ob
from fvsym.rt import *  # noqa
from fvsym import xforms
from fibertree.model.format import Format

BOUNDS = {
    "quick": "value-returning family: every transform of C09's list (splits, swap, flatten, unflatten, merge, tensor updateCoords/updatePayloads, deepcopy, swizzle on a "
             "2x2 box) plus fiber +, * and Fiber.copy/deepcopy on skeletons [2,1], [1,1], [1,0], 2: operand snapshot (tree, rank lists, ids, shape, default, formats) "
             "unchanged; no Fiber/Payload/Rank/RankAttrs object shared; mutation of every leaf box of one side invisible to the other. Read-only family: getPayload, "
             "iterators, co-iteration, ==, isEmpty, countValues, shape queries, fiber2dict, Format.get*, str/repr/format (coordinates and values in 0..1: formatting realises the symbols, so the solver enumerates a finite model set); identity swizzle, unflattenRanks of a flattened operand, Fiber.copy(preserve_owner=False) / Tensor.fromFiber of an owned root with owner identities compared, read-only queries on a tensor created empty and grown point by point (recorded rank shapes compared, growth afterwards visible)",
    "thorough": "adds [2,2], [0,1], depth-3 [[1]], all split kinds with halos, 2x2x2 swizzles",
}
OUTSIDE = ("image rendering (TensorImage/TreeImage/UncompressedImage draw through PIL/cv2 C code: pixel buffers are not symbolic; only the tree-side purity of the "
           "traversal APIs they use is decided); pickle's own fidelity (S1; replays use real pickle); YAML text (S4)")
ASSUMPTIONS = ["A1 integers only", "S1 structural deepcopy (call sites real)", "S2"]


def objects(t):
    """all Fiber / Payload / Rank / RankAttrs objects reachable from a tensor"""
    out = []

    def walk(f):
        out.append(f)
        out.append(f.getRankAttrs())
        for p in f.payloads:
            if isinstance(p, Fiber):
                walk(p)
            else:
                out.append(p)

    root = t.getRoot() if isinstance(t, Tensor) else t
    if isinstance(root, Fiber):
        walk(root)
    if isinstance(t, Tensor):
        for r in t.ranks:
            out.append(r)
            out.append(r.getAttrs())
    return out


def snapshot(t):
    root = t.getRoot() if isinstance(t, Tensor) else t
    s = [raw(root)]
    if isinstance(t, Tensor):
        s.append([[id(f) for f in r.fibers] for r in t.ranks])
        s.append(list(t.getRankIds()))
        s.append(t.getShape())
        s.append(pv(t.getDefault()))
        s.append([t.getFormat(r) for r in t.getRankIds()])
        s.append(t.isMutable())
        s.append(t.getName())
        s.append([(r.getAttrs().getShape(), r.getAttrs().getEstimatedShape()) for r in t.ranks])      # what the ranks *record*, not what getShape() derives
    else:
        s.append(root.getActive())
        s.append(pv(root.getDefault()) if not callable(pv(root.getDefault())) else "fiber")
    return s


def leaves(f, out=None):
    out = [] if out is None else out
    for p in f.payloads:
        if isinstance(p, Fiber):
            leaves(p, out)
        else:
            out.append(p)
    return out


def disjoint(a, b):
    ids = set(id(x) for x in a)
    for x in b:
        if id(x) in ids:
            return False
    return True


def returning(sk, *xs):
    name, opt, d, S = sk["xf"], sk["opt"], sk["depth"], sk["S"]
    if sk.get("box"):
        f, pos = build_box(sk["box"], xs)
    else:
        f, pos, _ = build_tree(sk["tree"], xs)
    t = Tensor.fromFiber(rank_ids_for(d), f, shape=[S] * d)
    if sk.get("fmt"):
        for rid, fm in zip(t.getRankIds(), sk["fmt"]):
            t.setFormat(rid, fm)
    if sk.get("prep") == "flatten":
        # the operand of the transform under test is itself a transform result (a tensor whose top rank is flattened)
        t = t.flattenRanks(depth=opt.get("depth", 0), levels=opt.get("levels", 1))
    n = xforms.xf_nargs(name, opt)
    a = list(xs[pos:pos + n])
    w = xs[pos + n]
    before = snapshot(t)
    try:
        r = xforms.apply_xf(name, t, opt, a)
    except (TypeError, AssertionError, ValueError, IndexError):
        # whether the transform succeeds on this input is C09's business; the operand must be intact all the same
        return snapshot(t) == before or fail("operand disturbed by a failing transform")
    if snapshot(t) != before:
        return fail("operand disturbed by %s" % name)
    if r is t or r.getRoot() is t.getRoot():
        return fail("result is the operand")
    if not disjoint(objects(t), objects(r)):
        return fail("result shares a fiber / payload box / rank / attribute object with the operand")
    # later mutation of either side is invisible to the other
    rs = snapshot(r)
    for p in leaves(r.getRoot()):
        p <<= w
    if snapshot(t) != before:
        return fail("mutating the result changed the operand")
    r2 = snapshot(r)
    for p in leaves(t.getRoot()):
        p += 1
    far = S + 5
    if len(t.getRoot().coords) and isinstance(t.getRoot().coords[0], tuple):
        far = tuple(S + 5 for _ in t.getRoot().coords[0])          # a flattened top rank has tuple coordinates
    nd = len(t.getRankIds())
    t.getRoot().append(far, copy.deepcopy(t.getRoot().payloads[0]) if len(t.getRoot().payloads) else (Fiber() if nd > 1 else 1))
    if snapshot(r) != r2:
        return fail("mutating the operand changed the result")
    return True


def owned_copy(sk, *xs):
    """Fiber.copy(preserve_owner=False) / Tensor.fromFiber of a root that already belongs to a tensor: a value-returning operation like any
    other (concrete box coordinates: the library keys a dict by coordinate here; symbolic values, so all-default sub-fibers are models)"""
    f, pos = build_box(sk["box"], xs)
    ids = rank_ids_for(len(sk["box"]))
    t = Tensor.fromFiber(ids, f)
    root = t.getRoot()
    def owners(g):
        out = [id(g.getOwner())]
        for p in g.payloads:
            if isinstance(p, Fiber):
                out += owners(p)
        return out
    b0, o0 = snapshot(t), owners(root)
    if sk["how"] == "copy":
        r = root.copy(preserve_owner=False)
    elif sk["how"] == "copy_owner":
        r = root.copy()
    else:
        r = Tensor.fromFiber(ids, root).getRoot()
    if snapshot(t) != b0:
        return fail("operand disturbed")
    if owners(root) != o0 or any(o == id(None) for o in owners(root)):
        return fail("a fiber of the operand no longer reports its rank as owner after %s" % sk["how"])
    if r is root or not disjoint([x for x in objects(root) if isinstance(x, (Fiber, Payload))], [x for x in objects(r) if isinstance(x, (Fiber, Payload))]):
        return fail("the copy shares a fiber or payload box with the operand")
    if raw(r) != raw(root):
        return fail("the copy differs from the operand")
    return mirror(t)


def fiber_ops(sk, *xs):
    """fiber-level value-returning operations"""
    op = sk["op"]
    f, pos, _ = build_tree(sk["tree"], xs)
    g, pos, _ = build_tree(sk["tree2"], xs, pos)
    w = xs[pos]
    bf, bg = snapshot(f), snapshot(g)
    if op == "add":
        r = f + g
    elif op == "mul":
        r = f * g
    elif op == "adds":
        r = f + 3
    elif op == "muls":
        r = f * 3
    elif op == "deepcopy":
        r = copy.deepcopy(f)
    elif op == "copy":
        r = f.copy()
    elif op == "nonEmpty":
        r = f.nonEmpty()
    elif op == "fromLazy":
        r = Fiber.fromLazy(f - g)
    elif op == "getitem_slice":
        r = f[0:2]
    if snapshot(f) != bf or snapshot(g) != bg:
        return fail("operand disturbed by %s" % op)
    if op in ("deepcopy", "copy") and not disjoint(objects(f), objects(r)):
        return fail("deepcopy shares objects with the original")
    if op in ("add", "mul", "adds", "muls", "fromLazy", "deepcopy", "copy"):
        if r is f or not disjoint([x for x in objects(f) if isinstance(x, (Fiber, Payload))], [x for x in objects(r) if isinstance(x, (Fiber, Payload))]):
            return fail("%s result shares a fiber or payload box with an operand" % op)
        for p in leaves(r):
            p <<= w
        if snapshot(f) != bf or snapshot(g) != bg:
            return fail("mutating the result of %s changed an operand" % op)
    return True


def readonly(sk, *xs):
    what, d, S = sk["what"], sk["depth"], sk["S"]
    f, pos, _ = build_tree(sk["tree"], xs)
    g, pos, _ = build_tree(sk["tree2"], xs, pos)
    if sk.get("grown"):
        # a tensor created empty without a shape and filled point by point: its rank shapes are unknown and have to be estimated on demand
        t = Tensor(rank_ids=rank_ids_for(d))
        for pt, v in content(f):
            r_ = t.getPayloadRef(*pt)
            r_ <<= v
    else:
        t = Tensor.fromFiber(rank_ids_for(d), f, shape=[S] * d)
    u = Tensor.fromFiber(rank_ids_for(d), g, shape=[S] * d)
    q = list(xs[pos:pos + d])
    bt, bu = snapshot(t), snapshot(u)
    a, b = t.getRoot(), u.getRoot()
    if what == "getPayload":
        t.getPayload(*q); t.getPayload(q[0]); a.getPayload(*q, default=7, allocate=False); a.getPosition(q[0])
    elif what == "iterators":
        for _ in a: pass
        for _ in a.iterOccupancy(): pass
        for _ in a.iterShape(): pass
        for _ in a.iterActive(): pass
        for _ in a.iterActiveShape(): pass
        for _ in a.iterRange(q[0], None): pass
        for _ in reversed(a): pass
        for _ in Fiber.coiterShape([a, b]): pass
    elif what == "coiter":
        for _ in a & b: pass
        for _ in a | b: pass
        for _ in a ^ b: pass
        for _ in a - b: pass
        for _ in Fiber.union(a, b, a): pass
        for _ in Fiber.intersection(a, b, a): pass
        for _ in Fiber.intersection(a, b, style="leader-follower"): pass
    elif what == "queries":
        t == u; a == b; a.isEmpty(); a.countValues(); t.countValues(); a.nonEmpty()
        t.getShape(); t.getShape(authoritative=True); a.getShape(); a.estimateShape(); a.getDepth(); a.maxCoord(); a.minCoord(); len(a)
        a.getActive(); a.getRankAttrs(); t.getRankIds(); t.getDefault(); a.getDefault(); a.getCoords(); a.getPayloads()
    elif what == "dict":
        a.fiber2dict(); a.uncompress() if len(content(a)) else None
    elif what == "format":
        spec = {r: {"format": "C" if i else "U", "cbits": 3, "pbits": 5, "fhbits": 1, "rhbits": 2} for i, r in enumerate(t.getRankIds())}
        fm = Format(t, spec)
        fm.getTensor(); fm.getSubTree(); fm.getFiber()
        for r in t.getRankIds():
            fm.getRank(r)
    elif what == "print":
        str(a); repr(a); "{}".format(a); format(a, "n"); str(t); repr(t); "{}".format(t)
        for _ in a.iterShape(): pass
    if snapshot(t) != bt or snapshot(u) != bu:
        return fail("a read-only %s operation changed a tree, a rank list or an attribute" % what)
    if sk.get("grown"):
        # ... and nothing was remembered: after the tensor grows the derived shape follows
        far = [S + 3 + i for i in range(d)]
        r_ = t.getPayloadRef(*far)
        r_ <<= 1
        sh = t.getShape()
        if any(sh[i] < far[i] + 1 for i in range(d)):
            return fail("after growing past %r the tensor still reports shape %r (a read-only query left a remembered estimate behind)" % (far, sh))
    return True


def _nm(x):
    return str(x).replace(" ", "")


def obligations(tier):
    q = tier == "quick"
    obs = []
    S = 4
    xfl = [("splitUniform", {"step": 2}), ("splitUniform", {"step": 2, "depth": 1}), ("splitNonUniform", {"k": 2}), ("splitEqual", {"size": 1}),
           ("splitUnEqual", {"sizes": [1, 1]}), ("truediv", {"parts": 2}), ("floordiv", {"parts": 2}), ("swapRanks", {}), ("flattenRanks", {}),
           ("flatten_unflatten", {}), ("mergeRanks", {"style": "absolute"}), ("updateCoords_inc", {}), ("updateCoords_dec", {"depth": 1}),
           ("updatePayloads", {"depth": 1}), ("deepcopy", {})]
    if not q:
        xfl += [("splitUniform", {"step": 2, "pre": 1, "post": 1}), ("splitEqual", {"size": 2, "depth": 1}), ("flattenRanks", {"style": "linear"}),
                ("mergeRanks", {"style": "relative"}), ("swap_swap", {}), ("split_flatten", {"step": 2})]
    for tree in ([[2, 1], [1, 1], [1, 0]] if q else [[2, 1], [1, 1], [1, 0], [2, 2], [0, 1]]):
        ps = names("x", tree_params(tree))
        pre, _, cn = tree_pre(tree, ps)
        pre = pre + bound_pre(cn, 0, S)
        for name, opt in xfl:
            an = names("p", xforms.xf_nargs(name, opt))
            p2 = list(pre)
            if name == "updateCoords_inc":
                p2 += ["0 <= p0"]
            if name == "updateCoords_dec":
                p2 += ["%d <= p0" % S]
            if name == "splitNonUniform":
                p2 += chain_pre(an) + bound_pre(an, 0, None)
            label = name + "(" + ",".join("%s=%s" % kv for kv in sorted(opt.items())) + ")"
            obs.append(Ob("ret/%s/%s" % (_nm(tree), label.replace(" ", "")), "returning",
                          dict(tree=tree, xf=name, opt=opt, depth=2, S=S, fmt=["U", "C"]), ps + an + ["w"], p2))
    obs.append(Ob("ret/box2x2/swizzle", "returning", dict(tree=None, box=[2, 2], xf="swizzleRanks", opt={"perm": [1, 0]}, depth=2, S=2), names("v", 4) + ["w"], []))
    # the identity permutation is a transform like any other: a new tensor sharing nothing with its operand
    obs.append(Ob("ret/box2x2/swizzle-identity", "returning", dict(tree=None, box=[2, 2], xf="swizzleRanks", opt={"perm": [0, 1]}, depth=2, S=2), names("v", 4) + ["w"], []))
    for tree in ([1, 1], [2, 1]):
        ps = names("x", tree_params(tree))
        pre, _, cn = tree_pre(tree, ps)
        obs.append(Ob("ret/flattened%s/unflattenRanks" % _nm(tree), "returning", dict(tree=tree, xf="unflattenRanks", opt={}, depth=2, S=S, prep="flatten"),
                      ps + ["w"], pre + bound_pre(cn, 0, S)))
    if not q:
        obs.append(Ob("ret/box2x2x2/swizzle", "returning", dict(tree=None, box=[2, 2, 2], xf="swizzleRanks", opt={"perm": [2, 0, 1]}, depth=3, S=2), names("v", 8) + ["w"], []))
        for name, opt in (("flattenRanks", {"depth": 1}), ("swapRanks", {"depth": 1}), ("splitUniform", {"step": 2, "depth": 2}), ("deepcopy", {})):
            tree = [[1]]
            ps = names("x", tree_params(tree))
            pre, _, cn = tree_pre(tree, ps)
            obs.append(Ob("ret/%s/%s%s" % (_nm(tree), name, _nm(opt)), "returning", dict(tree=tree, xf=name, opt=opt, depth=3, S=S), ps + ["w"], pre + bound_pre(cn, 0, S)))
    for how in ("copy", "copy_owner", "fromFiber"):
        for box in ([2, 2], [1, 2, 2]):
            obs.append(Ob("owned-copy/%s/box%s" % (how, "x".join(map(str, box))), "owned_copy", dict(box=box, how=how), names("v", box_size(box)), []))
    for op in ("add", "mul", "adds", "muls", "deepcopy", "copy", "nonEmpty", "fromLazy", "getitem_slice"):
        for t1, t2 in ([(2, 1), (1, 2)] if op in ("add", "mul", "fromLazy") else [(2, 0)]):
            ps = names("x", tree_params(t1)) + names("y", tree_params(t2))
            pre = tree_pre(t1, names("x", tree_params(t1)))[0] + tree_pre(t2, names("y", tree_params(t2)))[0]
            if op == "adds":
                pre += bound_pre(names("x", t1), 0, 4)
            obs.append(Ob("fiber/%s/%s-%s" % (op, _nm(t1), _nm(t2)), "fiber_ops", dict(op=op, tree=t1, tree2=t2), ps + ["w"], pre))
    for op in ("deepcopy", "copy", "nonEmpty"):
        t1 = [1, 1]
        ps = names("x", tree_params(t1))
        obs.append(Ob("fiber/%s/%s" % (op, _nm(t1)), "fiber_ops", dict(op=op, tree=t1, tree2=0), ps + ["w"], tree_pre(t1, ps)[0]))
    for what in ("getPayload", "iterators", "coiter", "queries", "dict", "format", "print"):
        for t1, t2 in ([([1, 1], [1]), ([1, 0], [1, 1])] if q else [([1, 1], [1]), ([1, 0], [1, 1]), ([2, 1], [1]), ([], [1])]):
            xn, yn = names("x", tree_params(t1)), names("y", tree_params(t2))
            p1, _, c1 = tree_pre(t1, xn)
            p2, _, c2 = tree_pre(t2, yn)
            hi = 2 if what == "print" else S
            pre = p1 + p2 + bound_pre(c1 + c2, 0, hi) + bound_pre(["q0", "q1"], 0, hi)
            if what == "print":
                vals = [n for n in xn + yn if n not in c1 + c2]
                pre += bound_pre(vals, 0, 2)
            obs.append(Ob("ro/%s/%s-%s" % (what, _nm(t1), _nm(t2)), "readonly", dict(what=what, tree=t1, tree2=t2, depth=2, S=S), xn + yn + ["q0", "q1"], pre))
            if what in ("queries", "dict", "iterators") and t1 == [1, 1]:
                obs.append(Ob("ro-grown/%s/%s-%s" % (what, _nm(t1), _nm(t2)), "readonly", dict(what=what, tree=t1, tree2=t2, depth=2, S=S, grown=True),
                              xn + yn + ["q0", "q1"], pre))
    return obs
