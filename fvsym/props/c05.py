"""C05 — populate (z << a) offers exactly a's coordinates and keeps only what was written."""
from fvsym.engine import Ob
from fvsym.rt import *  # noqa
from fvsym.props.c03 import flat, lookup, stored

BOUNDS = {
    "quick": "1-level: destination 0..2 stored elements (tensor-owned), source 0..2, every coordinate/value symbolic, loop body = symbolic selector per "
             "offered reference in {leave, <<= w, += w} with symbolic w (w = 0 is 'set back to the default'); 2-level nested populate on destination "
             "[], [1], [1,1] x source [1], [1,1], [2]; source rank declared 'U' over an active range of span <= 3; the same populate object traversed twice (dry pass, then writing pass); both source ranks 'U' and source fibers that store nothing; pinned-destination counterparts of the slow nested obligations",
    "thorough": "1-level up to 3x2 (and 0-1 x 3); 2-level destination [2,1], source up to [1,1] / [2]; 3-level nested populate [[1]] x [[1]]",
}
OUTSIDE = "bodies that mutate z other than through the offered reference; start_pos other than None; floats"
ASSUMPTIONS = ["A1 integers only", "loop bodies are modelled as leave / assign / accumulate per offered reference (w symbolic, may be the default)"]


def pop1(sk, *xs):
    nz, na = sk["nz"], sk["na"]
    zc, zv = list(xs[:nz]), list(xs[nz:2 * nz])
    p = 2 * nz
    ac, av = list(xs[p:p + na]), list(xs[p + na:p + 2 * na])
    p += 2 * na
    if sk.get("sel") is not None:
        sel, ws = list(sk["sel"]), list(xs[p:p + na])
    else:
        sel, ws = list(xs[p:p + na]), list(xs[p + na:p + 2 * na])
    t = Tensor.fromFiber(["K"], Fiber(zc, zv))
    z = t.getRoot()
    a = Fiber(ac, av)
    sa = raw(a)
    apay = list(a.payloads)
    model = [(c, v) for c, v in zip(zc, zv)]          # stored elements of z (incl. explicit defaults)
    offered = []
    k = 0
    present = [i for i in range(na) if av[i] != 0]
    pop = z << a
    if sk.get("twice"):
        # the populate object is traversed twice: a dry pass whose body touches nothing, then the writing pass
        n0 = 0
        for c, (ref, pa) in pop:
            n0 += 1
        if n0 != len(present):
            return fail("dry pass over z << a offered %d coordinates, a presents %d" % (n0, len(present)))
        if wf(z, 1) < 0 or not mirror(t):
            return fail("z not well-formed after a dry pass")
    for c, (ref, pa) in pop:
        if k >= len(present):
            return fail("more coordinates offered than a presents")
        i = present[k]
        if c != ac[i]:
            return fail("offered coordinate is not a's next present coordinate")
        if pa is not apay[i]:
            return fail("offered source payload is not a's stored payload")
        cur = 0
        for mc, mv in model:
            if mc == c:
                cur = mv
        if pv(ref) != cur:
            return fail("offered reference does not show z's current value")
        if sel[i] == 1:
            ref <<= ws[i]
            new = ws[i]
        elif sel[i] == 2:
            ref += ws[i]
            new = cur + ws[i]
        else:
            new = cur
        if wf(z, 1) < 0 or not mirror(t):
            return fail("z not a well-formed member of its tensor inside the loop")
        model = [(mc, mv) for mc, mv in model if mc != c] + [(c, new)]
        offered.append(c)
        k += 1
    if k != len(present):
        return fail("fewer coordinates offered than a presents")
    if wf(z, 1) < 0 or not mirror(t):
        return fail("z not well-formed after the loop")
    # content equals previous content overridden by the writes
    got = content(z)
    want = sorted([((mc,), mv) for mc, mv in model if mv != 0])
    if got != want:
        return fail("content after the loop differs from the overlay model")
    # nothing left behind at offered coordinates that ended at the default
    for c in offered:
        fin = 0
        for mc, mv in model:
            if mc == c:
                fin = mv
        if fin == 0:
            for rc in z.coords:
                if rc == c:
                    return fail("an element was left behind at a coordinate whose value is the default")
    # coordinates of z outside a are untouched (explicit defaults included)
    for j in range(nz):
        touched = False
        for c in offered:
            if c == zc[j]:
                touched = True
        if not touched:
            found = False
            for rc, rp in zip(z.coords, z.payloads):
                if rc == zc[j] and pv(rp) == zv[j]:
                    found = True
            if not found:
                return fail("an element of z outside a was disturbed")
    if raw(a) != sa:
        return fail("a was modified")
    return True


def _mk1(nz, na, sel=None, twice=False):
    z, a = names("z", nz), names("a", na)
    if twice:
        sel_ = names("s", na)
        ps = z + names("zv", nz) + a + names("av", na) + sel_ + names("w", na)
        pre = chain_pre(z) + chain_pre(a) + ["0 <= %s <= 2" % x for x in sel_]
        return Ob("pop1/%dx%d/twice" % (nz, na), "pop1", dict(nz=nz, na=na, twice=True), ps, pre)
    if sel is not None:
        ps = z + names("zv", nz) + a + names("av", na) + names("w", na)
        return Ob("pop1/%dx%d/sel%s" % (nz, na, "".join(map(str, sel))), "pop1", dict(nz=nz, na=na, sel=list(sel)), ps, chain_pre(z) + chain_pre(a))
    sel = names("s", na)
    ps = z + names("zv", nz) + a + names("av", na) + sel + names("w", na)
    pre = chain_pre(z) + chain_pre(a) + ["0 <= %s <= 2" % s for s in sel]
    return Ob("pop1/%dx%d" % (nz, na), "pop1", dict(nz=nz, na=na), ps, pre)


def _sels(n):
    import itertools
    return list(itertools.product((0, 1, 2), repeat=n))


def _leaves(tree):
    if isinstance(tree, int):
        return tree
    return sum(_leaves(s) for s in tree)


def popn(sk, *xs):
    """nested populate over all levels; body on the leaf references"""
    zt, at, d = sk["z"], sk["a"], sk["depth"]
    zf, pos, _ = build_tree(zt, xs)
    af, pos, _ = build_tree(at, xs, pos)
    nl = _leaves(at)
    if sk.get("sel") is not None:
        sel, ws = list(sk["sel"]), list(xs[pos:pos + nl])
    else:
        sel, ws = list(xs[pos:pos + nl]), list(xs[pos + nl:pos + 2 * nl])
    t = Tensor.fromFiber(rank_ids_for(d), zf)
    z = t.getRoot()
    sa = raw(af)
    model = flat(z)
    offered_pts = []
    state = {"k": 0, "ok": True}
    a_present = content(af)         # (point, value) of a's non-default leaves, in order

    def loop(zz, aa, prefix, level):
        for c, (ref, pa) in zz << aa:
            if level == d:
                k = state["k"]
                pt = prefix + (c,)
                if k >= len(a_present) or a_present[k][0] != pt or pv(pa) != a_present[k][1]:
                    state["ok"] = False
                    return
                cur = lookup(model, pt, 0)
                if pv(ref) != cur:
                    state["ok"] = False
                    return
                if sel[k] == 1:
                    ref <<= ws[k]
                    new = ws[k]
                elif sel[k] == 2:
                    ref += ws[k]
                    new = cur + ws[k]
                else:
                    new = cur
                for i in range(len(model)):
                    if model[i][0] == pt:
                        model[i] = (pt, new)
                if not stored(model, pt):
                    model.append((pt, new))
                offered_pts.append(pt)
                state["k"] = k + 1
                if wf(z, d) < 0 or not mirror(t):
                    state["ok"] = False
                    return
            else:
                if not isinstance(ref, Fiber):
                    state["ok"] = False
                    return
                pref = prefix + (c,)
                if not any(p_[:level] == pref for p_, _ in a_present):
                    # an upper coordinate whose sub-fiber presents nothing (empty, or holding only defaults) is not one "a presents"
                    state["ok"] = False
                    state["why"] = "an upper coordinate whose sub-fiber presents nothing was offered"
                    return
                loop(ref, pa, pref, level + 1)
                if not state["ok"]:
                    return

    loop(z, af, (), 1)
    if not state["ok"]:
        return fail(state.get("why") or "offered sequence / reference value / well-formedness broke inside the loop nest")
    if state["k"] != len(a_present):
        return fail("not all of a's points were offered")
    if wf(z, d) < 0:
        return fail("z not well-formed after the loops")
    if not mirror(t):
        return False
    got = content(z)
    want = sorted([(p_, v_) for p_, v_ in model if v_ != 0])
    if got != want:
        return fail("content differs from the overlay model")
    # no element and no sub-fiber left behind where z had nothing and the body wrote nothing lasting
    l0 = flat(Fiber.fromUncompressed([]) if False else z)
    for pt in offered_pts:
        if lookup(model, pt, 0) == 0 and stored(l0, pt):
            return fail("leaf element left behind at the default")
    if raw(af) != sa:
        return fail("a was modified")
    return True


def empties(f):
    """number of zero-length sub-fibers in the raw tree"""
    n = 0
    for p in f.payloads:
        if isinstance(p, Fiber):
            if len(p.coords) == 0:
                n += 1
            n += empties(p)
    return n


def popn_noempty(sk, *xs):
    """destination starts canonical and empty: after any nested populate no zero-length sub-fiber is left behind"""
    at, d = sk["a"], sk["depth"]
    af, pos, _ = build_tree(at, xs)
    nl = _leaves(at)
    sel, ws = list(xs[pos:pos + nl]), list(xs[pos + nl:pos + 2 * nl])
    t = Tensor(rank_ids=rank_ids_for(d))
    z = t.getRoot()
    k = [0]

    def loop(zz, aa, level):
        for c, (ref, pa) in zz << aa:
            if level == d:
                if sel[k[0]] == 1:
                    ref <<= ws[k[0]]
                elif sel[k[0]] == 2:
                    ref += ws[k[0]]
                k[0] += 1
            else:
                loop(ref, pa, level + 1)

    loop(z, af, 1)
    if empties(z) != 0:
        return fail("a zero-length sub-fiber was left behind")
    for pt, v in flat(z):
        if v == 0:
            return fail("a default-valued leaf was left behind")
    return mirror(t) and wf(z, d) >= 0


def _mkn(zt, at, fn="popn", sel=None):
    d = tree_depth(at)
    if sel is not None:
        zp = names("z", tree_params(zt)); ap = names("a", tree_params(at))
        ob = Ob("%s/%s<<%s/sel%s" % (fn, str(zt).replace(" ", ""), str(at).replace(" ", ""), "".join(map(str, sel))), fn,
                dict(a=at, depth=d, z=zt, sel=list(sel)), zp + ap + names("w", _leaves(at)), tree_pre(zt, zp)[0] + tree_pre(at, ap)[0])
        if zt != []:
            # quick-tier counterpart of a slow obligation: the destination's own coordinates pinned to 0, 2, 4, ... per fiber, the source
            # (and therefore disjoint / overlapping / in-between placement), all values and the body stay symbolic
            ob.pin = {k: 2 * v for k, v in tree_pin(zt, zp)[0].items()}
        return ob
    zp = names("z", tree_params(zt)) if fn == "popn" else []
    ap = names("a", tree_params(at))
    nl = _leaves(at)
    sel = names("s", nl)
    pre = (tree_pre(zt, zp)[0] if zp else []) + tree_pre(at, ap)[0] + ["0 <= %s <= 2" % s for s in sel]
    sk = dict(a=at, depth=d)
    if fn == "popn":
        sk["z"] = zt
    return Ob("%s/%s<<%s" % (fn, str(zt).replace(" ", ""), str(at).replace(" ", "")), fn, sk, zp + ap + sel + names("w", nl), pre)


def pop_u(sk, lo, span, *xs):
    """source rank declared 'U': every coordinate of a's active range is offered"""
    nz, na = sk["nz"], sk["na"]
    hi = lo + span
    zc, zv = list(xs[:nz]), list(xs[nz:2 * nz])
    p = 2 * nz
    ac, av = list(xs[p:p + na]), list(xs[p + na:p + 2 * na])
    w = xs[p + 2 * na]
    t = Tensor.fromFiber(["K"], Fiber(zc, zv))
    z = t.getRoot()
    a = Fiber(ac, av, active_range=(lo, hi))
    a.getRankAttrs().setFormat("U")
    seen = []
    for c, (ref, pa) in z << a:
        want = 0
        for i in range(na):
            if ac[i] == c:
                want = av[i]
        if pv(pa) != want:
            return fail("source value offered for a coordinate differs from a's value there")
        seen.append(c)
        ref += pv(pa) + w
    if seen != list(range(lo, hi)):
        return fail("a 'U' source did not offer its whole active range")
    return wf(z, 1) >= 0 and mirror(t)


def pop_u2(sk, *xs):
    """2-level source whose upper rank (fmts "UC") or both ranks ("UU") are declared 'U': every coordinate of the shape is offered (absent ones
    as empty sub-fibers / default values), also by a source fiber that stores nothing; the source tree and its tensor's rank lists are never
    modified; z ends up with a's content"""
    tree, S = sk["tree"], sk["S"]
    fm = sk.get("fmts", "UC")
    af, pos, _ = build_tree(tree, xs)
    ta = Tensor.fromFiber(["M", "K"], af, shape=[S, S])
    ta.setFormat("M", "U")
    if fm == "UU":
        ta.setFormat("K", "U")
    a = ta.getRoot()
    sa = raw(a)
    ra = [list(r.fibers) for r in ta.ranks]
    tz = Tensor(rank_ids=["M", "K"], shape=[S, S])
    seen = []
    for m, (z_k, a_k) in tz.getRoot() << a:
        seen.append(m)
        inner = []
        for k, (z_ref, a_val) in z_k << a_k:
            inner.append(k)
            z_ref += a_val
        if fm == "UU" and inner != list(range(S)):
            return fail("a source fiber of a 'U' rank (row %r, %d stored elements) offered %r, not its whole shape" % (m, len(a_k.coords), inner))
        if not mirror(tz):
            return False
    if seen != list(range(S)):
        return fail("a 'U' source rank did not offer its whole shape")
    if raw(a) != sa:
        return fail("a was modified")
    for i, r in enumerate(ta.ranks):
        if not same_objects(r.fibers, ra[i]):
            return fail("populating from a changed a's tensor: rank %d lists %d fibers (was %d)" % (i, len(r.fibers), len(ra[i])))
    if content(tz.getRoot()) != content(a):
        return fail("z does not hold a's content")
    return wf(tz.getRoot(), 2) >= 0 and mirror(tz)


def obligations(tier):
    q = tier == "quick"
    obs = []
    N = 2 if q else 3
    for tree in ([[1], [1, 0]] if q else [[1], [1, 0], [1, 1], [2]]):
        S = 3
        ps = names("a", tree_params(tree))
        pre, _, cn = tree_pre(tree, ps)
        obs.append(Ob("pop_u2/%s" % str(tree).replace(" ", ""), "pop_u2", dict(tree=tree, S=S), ps, pre + bound_pre(cn, 0, S)))
        obs.append(Ob("pop_u2/UU/%s" % str(tree).replace(" ", ""), "pop_u2", dict(tree=tree, S=S, fmts="UU"), ps, pre + bound_pre(cn, 0, S)))
    obs.append(Ob("pop_u2/UU/[]", "pop_u2", dict(tree=[], S=2, fmts="UU"), [], []))
    for nz in range(N + 1):
        for na in range(N + 1):
            if not q and na == 3 and nz >= 2:
                continue       # 3 offered references on a destination of 2-3 elements: 27 selector shards of 1000+ paths each, beyond the thorough time budget
            if na >= 2 and nz >= 2:
                for sel in _sels(na):
                    obs.append(_mk1(nz, na, sel))
            else:
                obs.append(_mk1(nz, na))
    for nz, na in ([(0, 1), (1, 1), (1, 2)] if q else [(0, 1), (1, 1), (1, 2), (2, 1), (2, 2)]):
        obs.append(_mk1(nz, na, twice=True))
    pairs = [([], [1]), ([1], [1]), ([1, 1], [1]), ([1], [1, 1]), ([], [2]), ([1], [2]), ([0], [1])]
    if not q:
        pairs += [([1, 1], [1, 1]), ([2, 1], [1]), ([2], [2]), ([[1]], [[1]]), ([], [[1]]), ([[1]], [[1, 1]])]      # ([1],[2,1]): 27 heavy shards, dropped
    for zt, at in pairs:
        if tree_depth(at) != (tree_depth(zt) if zt != [] else tree_depth(at)):
            continue
        if _leaves(at) >= 2 or _leaves(zt) >= 2 if zt != [] else False:
            for sel in _sels(_leaves(at)):
                obs.append(_mkn(zt, at, sel=sel))
        else:
            obs.append(_mkn(zt, at))
    for at in ([[1], [1, 1], [2]] if q else [[1], [1, 1], [2], [2, 1], [[1]], [[1, 1]], [[1], [1]]]):
        obs.append(_mkn("empty", at, fn="popn_noempty"))
    for nz, na in ([(0, 1), (1, 1), (2, 1)] if q else [(0, 1), (1, 1), (2, 1), (1, 2), (2, 2)]):
        z, a = names("z", nz), names("a", na)
        obs.append(Ob("pop_u/%dx%d" % (nz, na), "pop_u", dict(nz=nz, na=na), ["lo", "span"] + z + names("zv", nz) + a + names("av", na) + ["w"],
                      ["0 <= span <= %d" % (3 if q else 4), "0 <= lo"] + chain_pre(z) + chain_pre(a) + ["lo <= %s < lo + span" % x for x in a]))
    return obs
