"""C12 — equality, emptiness and counting depend on content only."""
import copy

from fvsym.engine import Ob
from fvsym.rt import *  # noqa

BOUNDS = {
    "quick": "pairs of trees over independent skeletons (1-level 0..2 elements; 2-level [], [0], [1], [1,0], [1,1], [2]; one 3-level pair [[2]] x [[1]]) with symbolic coordinates and values: "
             "A == B <=> content(A) = content(B), symmetry, reflexivity, isEmpty, countValues, nonEmpty, deepcopy; transitivity on triples of 1-level <=2-fibers and "
             "[1]-trees; Tensor == with equal and different rank ids; tensors with different authoritative shapes, leaf defaults 7 vs 0, count / emptiness again after an in-place update, one depth-3 pair",
    "thorough": "pairs up to 3 elements / [2,1] x [1,1] / depth-3 [[1]] x [[1],[0]]; triples with 2-level [1,1]",
}
OUTSIDE = "depth > 3; non-zero leaf defaults other than the symbolic default family in eq_default; floats"
ASSUMPTIONS = ["A1 integers only", "S1 for deepcopy (pickle trusted; replays use it)"]


def eq_pair(sk, *xs):
    ta, tb, owned = sk["a"], sk["b"], sk.get("owned", False)
    a, pos, _ = build_tree(ta, xs)
    b, pos, _ = build_tree(tb, xs, pos)
    if owned:
        d = sk["depth"]
        T = Tensor.fromFiber(rank_ids_for(d), a)
        a = T.getRoot()
    ca, cb = content(a), content(b)
    same = ca == cb
    if (a == b) != same:
        return fail("a == b is %s but content equality is %s" % (not same, same))
    if (b == a) != same:
        return fail("== not symmetric")
    if not (a == a) or not (b == b):
        return fail("== not reflexive")
    if a.isEmpty() != (len(ca) == 0):
        return fail("isEmpty")
    if a.countValues() != len(ca):
        return fail("countValues")
    ne = a.nonEmpty()
    if content(ne) != ca:
        return fail("nonEmpty changed the content")
    if not (ne == a):
        return fail("nonEmpty() != original")
    # the pruned copy holds no explicit default and no empty sub-fiber
    def clean(f):
        for p in f.payloads:
            if isinstance(p, Fiber):
                if len(p.coords) == 0 or not clean(p):
                    return False
            elif pv(p) == 0:
                return False
        return True
    if not clean(ne):
        return fail("nonEmpty left an explicit default or an empty sub-fiber")
    if not (copy.deepcopy(a) == a):
        return fail("deepcopy != original")
    return True


def eq_default(sk, *xs):
    """trees with different leaf defaults: equality still means 'same non-default values at the same points' (each side's own default)"""
    na, nb, da, db = sk["na"], sk["nb"], sk["da"], sk["db"]
    ac, av = list(xs[:na]), list(xs[na:2 * na])
    bc, bv = list(xs[2 * na:2 * na + nb]), list(xs[2 * na + nb:2 * na + 2 * nb])
    a = Fiber(ac, av, default=da)
    b = Fiber(bc, bv, default=db)
    ca, cb = content(a, da), content(b, db)
    same = ca == cb
    if (a == b) != same or (b == a) != same:
        return fail("== with leaf defaults %r / %r is %s, content equality is %s" % (da, db, a == b, same))
    if a.isEmpty() != (len(ca) == 0) or a.countValues() != len(ca):
        return fail("isEmpty / countValues with a non-zero default")
    e = Fiber()
    if (len(ca) == 0 and len(cb) == 0) and not ((a == e) == (e == b)):
        return fail("two empty trees disagree about equality with the empty fiber")
    return True


def eq_triple(sk, *xs):
    a, pos, _ = build_tree(sk["a"], xs)
    b, pos, _ = build_tree(sk["b"], xs, pos)
    c, pos, _ = build_tree(sk["c"], xs, pos)
    if (a == b) and (b == c) and not (a == c):
        return fail("== not transitive")
    if (a == b) and not (b == c) and (a == c):
        return fail("== not an equivalence")
    return True


def eq_tensor(sk, *xs):
    a, pos, _ = build_tree(sk["a"], xs)
    b, pos, _ = build_tree(sk["b"], xs, pos)
    d = sk["depth"]
    ids = rank_ids_for(d)
    if sk.get("shapes"):
        # "whatever ... shapes ... they carry": two authoritative, different shapes
        ta = Tensor.fromFiber(ids, a, shape=[4] * d)
        tb = Tensor.fromFiber(ids, b, shape=[6 + i for i in range(d)])
    else:
        ta = Tensor.fromFiber(ids, a)
        tb = Tensor.fromFiber(ids, b)
    tc = Tensor.fromFiber(["X"] + ids[1:], copy.deepcopy(b))
    same = content(ta.getRoot()) == content(tb.getRoot())
    if (ta == tb) != same:
        return fail("Tensor == differs from content equality")
    if sk.get("part") == 2:
        if ta.countValues() != len(content(ta.getRoot())):
            return fail("Tensor.countValues")
        if (tb == tc):
            return fail("tensors with different rank ids compare equal")
    return True


def count_update(sk, *xs):
    """the count (and emptiness) follows the content through later in-place updates: nothing may be remembered from an earlier query"""
    a, pos, _ = build_tree(sk["a"], xs)
    d = sk["depth"]
    ta = Tensor.fromFiber(rank_ids_for(d), a)
    if ta.countValues() != len(content(ta.getRoot())):
        return fail("Tensor.countValues")
    e0 = ta.getRoot().isEmpty()
    r = ta.getPayloadRef(*xs[pos:pos + d])
    r <<= xs[pos + d]
    c1 = content(ta.getRoot())
    if ta.countValues() != len(c1) or ta.getRoot().countValues() != len(c1):
        return fail("countValues after an in-place update does not describe the current content")
    if ta.getRoot().isEmpty() != (len(c1) == 0):
        return fail("isEmpty after an in-place update does not describe the current content")
    return True


def _pp(trees, tags):
    ps, pre = [], []
    for t, tag in zip(trees, tags):
        n = names(tag, tree_params(t))
        ps += n
        pre += tree_pre(t, n)[0]
    return ps, pre


def _nm(t):
    return str(t).replace(" ", "")


def obligations(tier):
    q = tier == "quick"
    obs = []
    one = [0, 1, 2] if q else [0, 1, 2, 3]
    two = [[], [0], [1], [1, 0], [1, 1], [2]] if q else [[], [0], [1], [1, 0], [1, 1], [2], [2, 1], [0, 1]]
    for i, a in enumerate(one):
        for b in one:
            ps, pre = _pp([a, b], "xy")
            obs.append(Ob("pair/%s-%s" % (_nm(a), _nm(b)), "eq_pair", dict(a=a, b=b), ps, pre))
    for a in two:
        for b in two:
            if q and (tree_params(a) + tree_params(b) > 9):
                continue
            ps, pre = _pp([a, b], "xy")
            obs.append(Ob("pair/%s-%s" % (_nm(a), _nm(b)), "eq_pair", dict(a=a, b=b), ps, pre))
    for na, nb in [(1, 1), (2, 2), (2, 1), (0, 1)]:
        for da, db in [(7, 0), (0, 7), (7, 7)]:
            an, bn = names("a", na), names("b", nb)
            obs.append(Ob("default/%dx%d/%d-%d" % (na, nb, da, db), "eq_default", dict(na=na, nb=nb, da=da, db=db),
                          an + names("u", na) + bn + names("w", nb), chain_pre(an) + chain_pre(bn)))
    for a, b in [([1, 0], [1]), ([1], [1, 1])]:
        ps, pre = _pp([a, b], "xy")
        obs.append(Ob("pair-owned/%s-%s" % (_nm(a), _nm(b)), "eq_pair", dict(a=a, b=b, owned=True, depth=2), ps, pre))
    for a, b in ([([[2]], [[1]])] if q else [([[2]], [[1]]), ([[1]], [[1], [0]]), ([[1]], [[1]]), ([[1, 0]], [[1]])]):
        if True:
            ps, pre = _pp([a, b], "xy")
            obs.append(Ob("pair/%s-%s" % (_nm(a), _nm(b)), "eq_pair", dict(a=a, b=b), ps, pre))
    tri = [(1, 1, 1), (2, 1, 1), (1, 2, 1), (1, 1, 2), (0, 1, 1), (1, 0, 1), ([1], [1], [1]), ([1, 0], [1], [0, 1])]
    if not q:
        tri += [(2, 2, 1), (2, 1, 2), (2, 2, 2), ([1, 1], [1], [1]), ([1], [1, 1], [1])]
    for a, b, c in tri:
        ps, pre = _pp([a, b, c], "xyz")
        obs.append(Ob("triple/%s-%s-%s" % (_nm(a), _nm(b), _nm(c)), "eq_triple", dict(a=a, b=b, c=c), ps, pre))
    for a, b in [(1, 1), (2, 1), ([1], [1]), ([1, 0], [1])]:
        ps, pre = _pp([a, b], "xy")
        if tree_depth(a) == 1:
            # (2-level tensors with unbounded coordinates do not finish: 3000+ paths through the shape estimation; the bounded
            #  "tensor-shapes" obligations below decide the same harness for coordinates inside a 4x4 shape)
            obs.append(Ob("tensor/%s-%s" % (_nm(a), _nm(b)), "eq_tensor", dict(a=a, b=b, depth=tree_depth(a)), ps, pre))
        _, _, cn = tree_pre(a, names("x", tree_params(a)))
        _, _, cn2 = tree_pre(b, names("y", tree_params(b)))
        obs.append(Ob("tensor-shapes/%s-%s" % (_nm(a), _nm(b)), "eq_tensor", dict(a=a, b=b, depth=tree_depth(a), shapes=True), ps, pre + bound_pre(cn + cn2, 0, 4)))
        if tree_depth(a) == 1:
            obs.append(Ob("tensor2/%s-%s" % (_nm(a), _nm(b)), "eq_tensor", dict(a=a, b=b, depth=tree_depth(a), part=2), ps, pre))
        pa = names("x", tree_params(a))
        obs.append(Ob("count-update/%s" % _nm(a), "count_update", dict(a=a, depth=tree_depth(a)), pa + names("q", tree_depth(a)) + ["w"], tree_pre(a, pa)[0]))
    return obs
