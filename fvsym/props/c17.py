"""C17 — buffer traffic models charge exactly what their policy implies."""
import functools
import itertools
import os
import shutil
import tempfile

from fvsym.engine import Ob
from fvsym.rt import *  # noqa
from fibertree.model.format import Format
from fibertree.model.traffic import Traffic

BOUNDS = {
    "quick": "trace rows are concrete skeletons written to real files (the models parse CSV text and hash positions); the solver quantifies the buffer capacity "
             "(any integer >= 0) and the rank shape that separates the insertion staging area. Buffet: all read/write traces with <= 2 rows over 2 outer-loop iterations, "
             "positions {0,1,staging}, read-only / write-only / read+write rows, evict-on root and M, line = 1, 2 or 3 elements, plus curated 3-row traces and a two-binding "
             "(rank M + rank K) skeleton. Cache: all line sequences of length <= 5 over <= 3 lines (restricted-growth strings, two position embeddings) against exhaustive "
             "optimal replacement with bypass. filterTrace / _combineTraces: concrete text-level checks only; 3-element lines, 'elem' (interleaved, 'U' rank with coordinate bits) and 'coord' bindings, two bindings listed inner-first with different footprints",
    "thorough": "buffet traces with <= 3 rows exhaustively; cache sequences of length <= 7 over <= 4 lines; write traces for the cache",
}
OUTSIDE = ("trace content is enumerated, not solver-quantified (CSV parsing and dict keys realise it); traces longer than the bound; more than two bindings; "
           "filterTrace and _combineTraces are pure text processing: exercised concretely, no quantified claim")
ASSUMPTIONS = ["A1 integers only", "S6 trace files live in a per-process temporary directory created and removed by the harness"]

LINE = 32


def _dir():
    d = os.path.join(tempfile.gettempdir(), "fvsym-c17-%d" % os.getpid())
    os.makedirs(d, exist_ok=True)
    return d


def _write(fn, header, rows):
    with open(fn, "w") as f:
        f.write(header + "\n")
        for r in rows:
            f.write(",".join(str(v) for v in r) + "\n")


# ------------------------------------------------------------------------------------------------ buffet
def _buffet_oracle(reads, writes, evict_on, epl, shape):
    """one fill per distinct (line, eviction window) whose first access is a read; one write-back per such pair holding a non-staging write.
    Reads merge before writes on equal stamps (stable merge by iteration stamp)."""
    allr = [(tuple(r[:2]), 0, i, r, False) for i, r in enumerate(reads)] + [(tuple(w[:2]), 1, i, w, True) for i, w in enumerate(writes)]
    allr.sort(key=lambda t: (t[0], t[1], t[2]))
    groups = []
    for stamp, _, _, (mp, kp, m, k, pos), isw in allr:
        key = ((m, pos // epl * epl), () if evict_on == "root" else (mp,))
        g = None
        for gg in groups:
            if gg[0] == key:
                g = gg
        if g is None:
            g = [key, not isw, False]
            groups.append(g)
        if isw and pos < shape:
            g[2] = True
    return sum(1 for g in groups if g[1]), sum(1 for g in groups if g[2])


def buffet(sk, cap, cap2, S):
    rows, wmask, evict_on, epl = sk["rows"], sk["wmask"], sk["evict"], sk["epl"]
    line_sz = LINE * epl
    reads = [r for r, w in zip(rows, wmask) if w in (0, 2)]
    writes = [r for r, w in zip(rows, wmask) if w in (1, 2)]
    d = _dir()
    try:
        A = Tensor(rank_ids=["M", "K"], shape=[2, S])
        btype = sk.get("btype", "payload")
        if btype == "elem":
            # an interleaved binding ("elem" = coordinate + payload per element) on a rank declared 'U' with non-zero coordinate bits:
            # one element still occupies LINE bits, so the policy charges exactly what it charges for the payload binding
            fmt = Format(A, {"M": {"format": "U", "pbits": LINE}, "K": {"format": "U", "cbits": LINE // 2, "pbits": LINE // 2, "layout": "interleaved"}})
        elif btype == "coord":
            fmt = Format(A, {"M": {"format": "U", "pbits": LINE}, "K": {"format": "C", "cbits": LINE, "pbits": 3 * LINE}})
        else:
            fmt = Format(A, {"M": {"format": "U", "pbits": LINE}, "K": {"format": "C", "cbits": LINE, "pbits": LINE}})
        res = []
        for c in (cap, cap2):
            traces = {}
            if reads:
                _write(os.path.join(d, "r.csv"), "M_pos,K_pos,M,K,fiber_pos", reads)
                traces[("A", "K", btype, "read")] = os.path.join(d, "r.csv")
            if writes:
                _write(os.path.join(d, "w.csv"), "M_pos,K_pos,M,K,fiber_pos", writes)
                traces[("A", "K", btype, "write")] = os.path.join(d, "w.csv")
            before = sorted(os.listdir(d))
            bits, ov = Traffic.buffetTraffic([{"tensor": "A", "rank": "K", "type": btype, "evict-on": evict_on}], {"A": fmt}, traces, c, line_sz)
            if sorted(os.listdir(d)) != before:
                return fail("temporary files left behind: %r" % sorted(os.listdir(d)))
            res.append((bits["A"].get("read", 0), bits["A"].get("write", 0), ov))
        fills, wbs = _buffet_oracle(reads, writes, evict_on, epl, S)
        if not reads:
            fills = 0
        for rd, wr, ov in res:
            if rd != fills * line_sz:
                return fail("buffet charged %r bits of fills, policy implies %r" % (rd, fills * line_sz))
            if wr != wbs * line_sz:
                return fail("buffet charged %r bits of write-backs, policy implies %r" % (wr, wbs * line_sz))
        if res[0][2] < res[1][2]:
            return fail("overflows increased with capacity")
        return True
    finally:
        shutil.rmtree(d, ignore_errors=True)


def buffet2(sk, cap, SM, SK):
    """two bindings (rank M evict-on root, rank K evict-on M), each with its own read/write traces and its own staging shape"""
    mrows, krows, mw, kw = sk["mrows"], sk["krows"], sk["mw"], sk["kw"]
    d = _dir()
    try:
        A = Tensor(rank_ids=["M", "K"], shape=[SM, SK])
        kepl = sk.get("kepl", 1)      # elements of rank K per line (rank M always has one): the two bindings have different footprints
        fmt = Format(A, {"M": {"format": "C", "cbits": LINE, "pbits": LINE}, "K": {"format": "C", "cbits": LINE, "pbits": LINE // kepl}})
        traces = {}
        mr = [r for r, w in zip(mrows, mw) if w in (0, 2)]
        mwr = [r for r, w in zip(mrows, mw) if w in (1, 2)]
        kr = [r for r, w in zip(krows, kw) if w in (0, 2)]
        kwr = [r for r, w in zip(krows, kw) if w in (1, 2)]
        for name, hdr, rr in (("mr", "M_pos,M,fiber_pos", mr), ("mw", "M_pos,M,fiber_pos", mwr), ("kr", "M_pos,K_pos,M,K,fiber_pos", kr),
                              ("kw", "M_pos,K_pos,M,K,fiber_pos", kwr)):
            if rr:
                fn = os.path.join(d, name + ".csv")
                _write(fn, hdr, rr)
                traces[("A", "M" if name[0] == "m" else "K", "payload", "read" if name[1] == "r" else "write")] = fn
        before = sorted(os.listdir(d))
        bindings = [{"tensor": "A", "rank": "M", "type": "payload", "evict-on": "root"}, {"tensor": "A", "rank": "K", "type": "payload", "evict-on": "M"}]
        if sk.get("rev"):
            bindings.reverse()        # the order in which the caller lists the bindings is immaterial
        bits, ov = Traffic.buffetTraffic(bindings, {"A": fmt}, traces, cap, LINE)
        if sorted(os.listdir(d)) != before:
            return fail("temporary files left behind")
        # rank M: lines keyed by position, one window (root); rank K: lines keyed by (m, pos), window = M iteration
        mfill = mwb = 0
        seen = []
        for stamp, isw, pos in sorted([((r[0],), 0, r[2]) for r in mr] + [((w[0],), 1, w[2]) for w in mwr]):
            g = None
            for s in seen:
                if s[0] == pos:
                    g = s
            if g is None:
                g = [pos, not isw, False]
                seen.append(g)
            if isw and pos < SM:
                g[2] = True
        mfill = sum(1 for g in seen if g[1]); mwb = sum(1 for g in seen if g[2])
        kfill, kwb = _buffet_oracle(kr, kwr, "M", kepl, SK)
        if not kr:
            kfill = 0
        want_r = (mfill + kfill) * LINE
        want_w = (mwb + kwb) * LINE
        if bits["A"].get("read", 0) != want_r or bits["A"].get("write", 0) != want_w:
            return fail("two bindings: charged read=%r write=%r, policy implies read=%r write=%r" % (bits["A"].get("read", 0), bits["A"].get("write", 0), want_r, want_w))
        return True
    finally:
        shutil.rmtree(d, ignore_errors=True)


# ------------------------------------------------------------------------------------------------ cache
def _opt(seq, k):
    """fewest line fills of any replacement policy with bypass allowed, by exhaustive search"""
    @functools.lru_cache(None)
    def go(i, cache):
        if i == len(seq):
            return 0
        x = seq[i]
        if x in cache:
            return go(i + 1, cache)
        best = 1 + go(i + 1, cache)
        if k > 0:
            if len(cache) < k:
                best = min(best, 1 + go(i + 1, cache | frozenset([x])))
            else:
                for e in cache:
                    best = min(best, 1 + go(i + 1, (cache - frozenset([e])) | frozenset([x])))
        return best
    return go(0, frozenset())


def cache(sk, cap, cap2):
    seq, posmap, epl = sk["seq"], sk["posmap"], sk["epl"]
    line_sz = LINE * epl
    d = _dir()
    try:
        B = Tensor.fromUncompressed(["K"], [1] * 16)
        fmt = Format(B, {"K": {"format": "C", "cbits": LINE, "pbits": LINE}})
        nl = len(set(seq))
        opt = [_opt(tuple(seq), k) for k in range(nl + 1)]
        res = []
        variants = [[posmap[x] * epl for x in seq]]
        if epl > 1:
            variants.append([posmap[x] * epl + (i % epl) for i, x in enumerate(seq)])     # differs only inside a line
        for c in (cap, cap2):
            for var in variants:
                fn = os.path.join(d, "t.csv")
                _write(fn, "K_pos,K,fiber_pos", [(i, p, p) for i, p in enumerate(var)])
                before = sorted(os.listdir(d))
                bits, ov = Traffic.cacheTraffic([{"tensor": "B", "rank": "K", "type": "payload"}], {"B": fmt}, {("B", "K", "payload", "read"): fn}, c, line_sz)
                if sorted(os.listdir(d)) != before:
                    return fail("temporary files left behind")
                got = bits["B"]["read"]
                k = c // line_sz
                if k > nl:
                    k = nl
                if got != opt[k] * line_sz:
                    return fail("cache charged %r bits at capacity %r, optimal replacement incurs %r" % (got, c, opt[k] * line_sz))
                if not (nl * line_sz <= got <= len(seq) * line_sz):
                    return fail("cache traffic outside [distinct lines, accesses]")
                res.append(got)
        if cap <= cap2 and res[0] < res[len(variants)]:
            return fail("cache traffic increased with capacity")
        return True
    finally:
        shutil.rmtree(d, ignore_errors=True)


# ------------------------------------------------------------------------------------------------ text-level helpers (concrete)
def text(sk):
    d = _dir()
    try:
        if sk["what"] == "filter":
            inp, fil = sk["inp"], sk["fil"]
            _write(os.path.join(d, "i.csv"), "M_pos,K_pos,M,K,fiber_pos", inp)
            _write(os.path.join(d, "f.csv"), "M_pos,K_pos,N_pos,M,K,N,fiber_pos", fil)
            Traffic.filterTrace(os.path.join(d, "i.csv"), os.path.join(d, "f.csv"), os.path.join(d, "o.csv"))
            got = [l.split(",") for l in open(os.path.join(d, "o.csv")).read().splitlines()[1:]]
            pts = [tuple(r[3:5]) for r in fil]
            want = [[str(v) for v in r] for r in inp if tuple(r[2:4]) in pts]
            return got == want or fail("filterTrace kept %r, expected %r" % (got, want))
        reads, writes = sk["reads"], sk["writes"]
        _write(os.path.join(d, "r.csv"), "M_pos,M,fiber_pos", reads)
        _write(os.path.join(d, "w.csv"), "M_pos,M,fiber_pos", writes)
        Traffic._combineTraces(read_fn=os.path.join(d, "r.csv"), write_fn=os.path.join(d, "w.csv"), comb_fn=os.path.join(d, "c.csv"))
        got = open(os.path.join(d, "c.csv")).read().splitlines()
        allr = sorted([((r[0],), 0, i, r, "False") for i, r in enumerate(reads)] + [((w[0],), 1, i, w, "True") for i, w in enumerate(writes)])
        want = ["M_pos,M,fiber_pos,is_write"] + [",".join(str(v) for v in r) + "," + f for _, _, _, r, f in allr]
        return got == want or fail("combined trace %r, expected stable merge %r" % (got, want))
    finally:
        shutil.rmtree(d, ignore_errors=True)


# ------------------------------------------------------------------------------------------------ skeletons
def _rgs(maxlen, maxlines):
    out = []

    def rec(prefix, mx):
        if prefix:
            out.append(list(prefix))
        if len(prefix) == maxlen:
            return
        for x in range(min(mx + 1, maxlines - 1) + 1):
            rec(prefix + [x], max(mx, x))

    rec([], -1)
    return out


def _buffet_skeletons(maxrows, curated):
    per_m = [()]
    for n in range(1, 3):
        per_m += list(itertools.product((0, 1, 3), repeat=n))
    out = []
    for p0 in per_m:
        for p1 in per_m:
            rows = [[0, i, 0, 10 + i, p] for i, p in enumerate(p0)] + [[1, i, 1, 10 + i, p] for i, p in enumerate(p1)]
            if not rows or len(rows) > maxrows:
                continue
            for wmask in itertools.product((0, 1, 2), repeat=len(rows)):
                if any(r[4] == 3 and w in (0, 2) for r, w in zip(rows, wmask)):
                    continue      # reads never address the staging area
                out.append((rows, list(wmask)))
    return out + curated


CURATED3 = [
    ([[0, 0, 0, 10, 0], [0, 1, 0, 11, 0], [1, 0, 1, 10, 0]], [0, 1, 0]),
    ([[0, 0, 0, 10, 0], [0, 1, 0, 11, 1], [1, 0, 0, 10, 0]], [2, 0, 2]),
    ([[0, 0, 0, 10, 3], [0, 1, 0, 11, 0], [1, 0, 0, 10, 3]], [1, 2, 1]),
    ([[0, 0, 0, 10, 1], [1, 0, 0, 10, 1], [1, 1, 0, 11, 0]], [1, 0, 0]),
    ([[0, 0, 0, 10, 0], [0, 1, 0, 11, 1], [0, 2, 0, 12, 0], [1, 0, 0, 10, 1]], [0, 0, 1, 2]),
]


def obligations(tier):
    q = tier == "quick"
    obs = []
    n = 0
    for rows, wmask in _buffet_skeletons(2 if q else 3, CURATED3):
        for evict in ("root", "M"):
            for epl in (1, 2, 3):
                n += 1
                if q and epl == 2 and (n // 3) % 3 != 0:
                    continue       # quick tier: every third skeleton also with 2-element lines; the thorough tier runs all
                if q and epl == 3 and (n // 3) % 3 != 1:
                    continue       # ... and another third with 3-element lines (a line size that is not a power of two)
                if not q and len(rows) >= 3 and epl >= 2 and (n // 3) % 2 != (epl % 2):
                    continue       # thorough tier: the 3-row skeletons run with 1-element lines always and alternate between 2- and 3-element lines
                tag = "%s/%s/%s/e%d" % ("-".join("%d%d%d" % (r[0], r[1], r[4]) for r in rows), "".join(map(str, wmask)), evict, epl)
                obs.append(Ob("buffet/" + tag, "buffet", dict(rows=rows, wmask=wmask, evict=evict, epl=epl), ["cap", "cap2", "S"], ["0 <= cap", "cap <= cap2", "0 <= S"]))
                if epl == 2 and n % 7 == 0:
                    for bt in ("elem", "coord"):
                        obs.append(Ob("buffet/" + tag + "/" + bt, "buffet", dict(rows=rows, wmask=wmask, evict=evict, epl=epl, btype=bt), ["cap", "cap2", "S"],
                                      ["0 <= cap", "cap <= cap2", "0 <= S"]))
    for mrows, mw, krows, kw in [
        ([[0, 0, 0], [1, 1, 2]], [2, 1], [[0, 0, 0, 10, 0], [1, 0, 1, 10, 1]], [0, 1]),
        ([[0, 0, 1], [1, 1, 3]], [1, 1], [[0, 0, 0, 10, 2], [1, 0, 1, 10, 0]], [1, 2]),
        ([[0, 0, 2]], [1], [[0, 0, 0, 10, 0], [0, 1, 0, 11, 1]], [2, 1]),
    ]:
        tag = "-".join("%d%d" % (r[0], r[2]) for r in mrows) + "_" + "-".join("%d%d%d" % (r[0], r[1], r[4]) for r in krows)
        obs.append(Ob("buffet2/" + tag, "buffet2", dict(mrows=mrows, mw=mw, krows=krows, kw=kw), ["cap", "shm", "shk"], ["0 <= cap", "1 <= shm", "1 <= shk"]))
        obs.append(Ob("buffet2/" + tag + "/rev-k2", "buffet2", dict(mrows=mrows, mw=mw, krows=krows, kw=kw, rev=True, kepl=2), ["cap", "shm", "shk"],
                      ["0 <= cap", "1 <= shm", "1 <= shk"]))
        obs.append(Ob("buffet2/" + tag + "/k2", "buffet2", dict(mrows=mrows, mw=mw, krows=krows, kw=kw, kepl=2), ["cap", "shm", "shk"],
                      ["0 <= cap", "1 <= shm", "1 <= shk"]))
    for seq in _rgs(5 if q else 7, 3 if q else 4):
        for posmap, epl in (([0, 1, 2, 3], 1), ([7, 2, 5, 0], 1), ([0, 1, 2, 3], 2), ([2, 0, 3, 1], 3)):
            if q and epl >= 2 and len(seq) > 4:
                continue
            if not q and len(seq) == 7 and (epl >= 2 or posmap[0] == 7):
                continue       # the longest sequences run once (identity embedding, 1-element lines)
            obs.append(Ob("cache/%s/p%d/e%d" % ("".join(map(str, seq)), posmap[0], epl), "cache", dict(seq=seq, posmap=posmap, epl=epl), ["cap", "cap2"],
                          ["0 <= cap", "cap <= cap2"]))
    obs.append(Ob("text/filter/1", "text", dict(what="filter", inp=[[0, 0, 0, 1, 0], [0, 1, 0, 3, 1], [1, 0, 2, 1, 0], [1, 1, 2, 4, 1]],
                                               fil=[[0, 1, 0, 0, 3, 5, 0], [0, 1, 1, 0, 3, 6, 1], [1, 1, 0, 2, 4, 5, 0]]), [], [], concrete=True))
    obs.append(Ob("text/filter/multidigit", "text", dict(what="filter",
                  inp=[[0, 0, 0, 2, 0], [0, 1, 0, 9, 1], [0, 2, 0, 10, 2], [0, 3, 0, 11, 3], [1, 0, 2, 10, 0], [1, 1, 2, 100, 1], [2, 0, 10, 3, 0], [2, 1, 10, 20, 1]],
                  fil=[[0, 1, 0, 0, 9, 5, 0], [0, 2, 0, 0, 10, 12, 0], [0, 2, 1, 0, 10, 13, 1], [1, 1, 0, 2, 100, 7, 0], [2, 0, 0, 10, 3, 1, 0], [2, 1, 0, 10, 20, 1, 0]]), [], [], concrete=True))
    obs.append(Ob("text/filter/digits-skip", "text", dict(what="filter",
                  inp=[[0, 0, 0, 2, 0], [0, 1, 0, 9, 1], [0, 2, 0, 10, 2], [0, 3, 0, 11, 3], [1, 0, 3, 5, 0], [2, 0, 10, 1, 0], [3, 0, 100, 7, 0]],
                  fil=[[0, 0, 0, 0, 2, 5, 0], [0, 2, 0, 0, 10, 12, 0], [2, 0, 0, 10, 1, 4, 0], [3, 0, 0, 100, 7, 1, 0]]), [], [], concrete=True))
    obs.append(Ob("text/combine/multidigit", "text", dict(what="combine", reads=[[2, 0, 0], [9, 1, 1], [10, 2, 2], [100, 3, 3]], writes=[[3, 1, 1], [10, 5, 4], [11, 0, 0], [99, 2, 2]]), [], [], concrete=True))
    obs.append(Ob("text/filter/empty", "text", dict(what="filter", inp=[[0, 0, 0, 1, 0]], fil=[]), [], [], concrete=True))
    obs.append(Ob("text/combine/1", "text", dict(what="combine", reads=[[0, 0, 0], [1, 1, 1], [3, 2, 2]], writes=[[1, 1, 1], [2, 5, 4], [3, 2, 2]]), [], [], concrete=True))
    obs.append(Ob("text/combine/2", "text", dict(what="combine", reads=[[2, 0, 0]], writes=[[0, 1, 1], [1, 5, 4]]), [], [], concrete=True))
    return obs
