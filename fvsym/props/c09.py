"""C09 — rank transforms move every point to its image and nothing else."""
from fvsym.engine import Ob
from fvsym.rt import *  # noqa
from fvsym import xforms
from fvsym.rt import _subtree_value_names

BOUNDS = {
    "quick": "coordinate-symbolic family on skeletons [2,1], [1,1], [1,0], [0,1], [] (depth 2) and [[1]], [[1,0]] (depth 3) inside authoritative shapes: flattenRanks "
             "(tuple, pair, linear) at depth 0/1 and 1-2 levels, flatten->unflatten, mergeRanks (absolute, relative; colliding points summed), swapRanks and its inverse, "
             "split->flatten(absolute) round trip, updateCoords (c+o, o-c) and updatePayloads (p+w) at every depth; value-symbolic family: swizzleRanks over all "
             "permutations of 2x2 and 2x2x2 boxes built with explicit zeros / all-zero rows; canonical (zero cells absent) 2x2x2 boxes and a non-cubic 1x2x3 box for swizzle with the permuted shape checked; two fibers at the transformed depth one of which is empty; flatten of a flatten result (operand intact, inverse still works), swap of a flatten result; inverse transforms inside shapes whose extents all differ (2x3x4, 2x2x3x5)",
    "thorough": "adds [2,2], [[1,1]], [[1],[1]], [[2]] skeletons, 3x2x2 swizzles (half of the cells fixed), estimated (non-authoritative) shapes for every transform",
}
OUTSIDE = "boxes larger than the bound for swizzle (coordinates are hashed by the library: concrete there); 'linear' with symbolic shape"
ASSUMPTIONS = ["A1 integers only", "A2 injective coordinate callbacks", "S1, S2"]


def _image(cont, fn, merge=False):
    out = []
    for pt, v in cont:
        out.append((fn(pt), v))
    out.sort()
    if not merge:
        return out
    m = []
    for pt, v in out:
        if m and m[-1][0] == pt:
            m[-1] = (pt, m[-1][1] + v)
        else:
            m.append((pt, v))
    return [(pt, v) for pt, v in m if v != 0]


def xform(sk, *xs):
    name, opt, d = sk["xf"], sk["opt"], sk["depth"]
    S = sk["S"]
    if sk.get("box"):
        nsym = box_size(sk["box"]) - len(sk.get("fixed") or [])
        vals = list(xs[:nsym]) + list(sk.get("fixed") or [])
        if sk.get("canon"):
            # canonical tree: a zero cell is *absent* (and an all-zero row has no sub-fiber), as fromUncompressed builds it
            def nest_(dims, k):
                if len(dims) == 1:
                    return vals[k:k + dims[0]], k + dims[0]
                out = []
                for _ in range(dims[0]):
                    sub, k = nest_(dims[1:], k)
                    out.append(sub)
                return out, k
            f = Fiber.fromUncompressed(nest_(sk["box"], 0)[0])
        else:
            f, pos = build_box(sk["box"], vals)
        pos = nsym
    else:
        f, pos, _ = build_tree(sk["tree"], xs)
    ids = rank_ids_for(d)
    shp = list(sk["box"]) if (sk.get("box") and S is None) else [S] * d      # S=None: a box that is not a cube carries its own dimensions
    if sk.get("Sv"):
        shp = list(sk["Sv"])                                                  # ranks of different extents
    t = Tensor.fromFiber(ids, f, shape=shp) if not sk.get("noshape") else Tensor.fromFiber(ids, f)
    c0 = content(t.getRoot())
    n = xforms.xf_nargs(name, opt)
    a = list(xs[pos:pos + n])
    r = xforms.apply_xf(name, t, opt, a)
    dd = opt.get("depth", 0)
    lv = opt.get("levels", 1)
    merge = False
    if name == "flattenRanks":
        st = opt.get("style", "tuple")
        if st == "tuple":
            fn = lambda p: p[:dd] + (tuple(p[dd:dd + lv + 1]),) + p[dd + lv + 1:]
        elif st == "pair":
            def fn(p):
                grp = p[dd:dd + lv + 1]
                nest = grp[-2:]
                for x in reversed(grp[:-2]):
                    nest = (x, nest)
                return p[:dd] + (tuple(nest),) + p[dd + lv + 1:]
        elif st == "linear":
            fn = lambda p: p[:dd] + (p[dd] * S + p[dd + 1],) + p[dd + 2:]
    elif name == "mergeRanks":
        st = opt.get("style", "tuple")
        merge = True
        if st == "absolute":
            fn = lambda p: p[:dd] + (p[dd + 1],) + p[dd + 2:]
        elif st == "relative":
            fn = lambda p: p[:dd] + (p[dd] + p[dd + 1],) + p[dd + 2:]
        else:
            fn = lambda p: p[:dd] + (tuple(p[dd:dd + 2]),) + p[dd + 2:]
    elif name in ("flatten_unflatten", "deepcopy", "swap_swap", "split_flatten"):
        fn = lambda p: p
    elif name == "swapRanks":
        fn = lambda p: p[:dd] + (p[dd + 1], p[dd]) + p[dd + 2:]
    elif name == "swizzleRanks":
        perm = opt["perm"]
        fn = lambda p: tuple(p[i] for i in perm)
    elif name == "updateCoords_inc":
        fn = lambda p: p[:dd] + (p[dd] + a[0],) + p[dd + 1:]
    elif name == "updateCoords_dec":
        fn = lambda p: p[:dd] + (a[0] - p[dd],) + p[dd + 1:]
    elif name == "updatePayloads":
        fn = lambda p: p
        c0 = [(pt, v + a[0]) for pt, v in c0]      # p -> p + w on every *stored non-default* leaf value
    else:
        raise KeyError(name)
    want = _image(c0, fn, merge)
    if name == "updatePayloads":
        # stored explicit defaults are payloads too and also receive + w
        want = None
    got = content(r.getRoot())
    if want is not None and got != want:
        return fail("%s: content of the result is not the image of the original's content: got %r want %r" % (name, got, want))
    if name == "updatePayloads":
        from fvsym.props.c03 import flat
        f0 = flat(t.getRoot())
        f1 = flat(r.getRoot())
        if f1 != [(pt, (v + a[0]) if v != 0 else v) for pt, v in f0]:
            return fail("updatePayloads: stored non-default leaves differ from p + w (explicit defaults are skipped)")
    if wf(r.getRoot()) < 0:
        return fail("%s: result not well-formed" % name)
    if not mirror(r):
        return False
    if name == "split_flatten":
        if not (r.getRoot() == t.getRoot()):
            return fail("split then flatten(absolute) does not restore the original content")
    if name in ("flatten_unflatten", "swap_swap"):
        if not (r == t):
            return fail("%s: inverse does not restore an equal tensor" % name)
        if not sk.get("noshape") and r.getShape() != t.getShape():
            return fail("%s: the restored tensor reports shape %r, the original %r" % (name, r.getShape(), t.getShape()))
        if name == "flatten_unflatten" and r.getRankIds() != t.getRankIds():
            return fail("%s: rank ids not restored" % name)
    if name == "swizzleRanks":
        perm = opt["perm"]
        if not sk.get("noshape"):
            # a well-formed result: every rank reports the shape of the rank it came from, and holds its coordinates inside it
            if r.getShape() != [t.getShape()[i] for i in perm]:
                return fail("swizzled tensor reports shape %r, the operand's shape permuted is %r" % (r.getShape(), [t.getShape()[i] for i in perm]))
        inv = [perm.index(i) for i in range(len(perm))]
        back = r.swizzleRanks([r.getRankIds()[i] for i in inv])
        if not (back == t) or content(back.getRoot()) != content(t.getRoot()):
            return fail("inverse permutation does not restore an equal tensor")
    if content(t.getRoot()) != (c0 if name != "updatePayloads" else content(t.getRoot())):
        return fail("operand content changed")
    return True


def flatten_twice(sk, *xs):
    """flattening (or merging) a rank that is itself the product of an earlier flatten: the intermediate tensor is an operand like any other
    (its rank ids, shape and content stay as they were and its own inverse still restores the original), the final result holds every point"""
    tree, S, second = sk["tree"], sk["S"], sk["second"]
    f, pos, _ = build_tree(tree, xs)
    t = Tensor.fromFiber(["A", "B", "C"], f, shape=[S] * 3)
    c0 = content(t.getRoot())
    f1 = t.flattenRanks(depth=0, levels=1)
    ids1 = [list(i) if isinstance(i, list) else i for i in f1.getRankIds()]
    sh1 = f1.getShape()
    c1 = content(f1.getRoot())
    f2 = f1.flattenRanks(depth=0, levels=1) if second == "flatten" else f1.mergeRanks(depth=0, levels=1)
    if [list(i) if isinstance(i, list) else i for i in f1.getRankIds()] != ids1:
        return fail("flattening an already flattened tensor changed the rank ids of its operand: %r -> %r" % (ids1, f1.getRankIds()))
    if f1.getShape() != sh1 or content(f1.getRoot()) != c1:
        return fail("flattening an already flattened tensor changed its operand")
    if ids1 != [["A", "B"], "C"]:
        return fail("first flatten reports rank ids %r" % (ids1,))
    back = f1.unflattenRanks(depth=0, levels=1)
    if back.getRankIds() != ["A", "B", "C"] or not (back == t) or content(back.getRoot()) != c0:
        return fail("the intermediate tensor no longer unflattens to the original")
    if len(content(f2.getRoot())) != len(c0) and second == "flatten":
        return fail("the second flatten lost or duplicated points")
    if wf(f2.getRoot()) < 0 or not mirror(f2) or not mirror(f1):
        return fail("result not a well-formed tensor")
    return True


def flatten_swap(sk, *xs):
    """swapping ranks of a tensor that is itself a flatten result (one of the swapped ranks has tuple coordinates): every point ((b, c) kept as
    one coordinate) moves to its swapped image and the second swap restores the flattened tensor"""
    tree, S = sk["tree"], sk["S"]
    f, pos, _ = build_tree(tree, xs)
    t = Tensor.fromFiber(["A", "B", "C"], f, shape=[S] * 3)
    f1 = t.flattenRanks(depth=1)
    c1 = content(f1.getRoot())
    r = f1.swapRanks(depth=0)
    want = sorted([((p[1], p[0]), v) for p, v in c1])
    if content(r.getRoot()) != want:
        return fail("swapRanks of a flattened tensor: content %r, expected %r" % (content(r.getRoot()), want))
    if r.getRankIds() != [["B", "C"], "A"]:
        return fail("rank ids %r" % (r.getRankIds(),))
    back = r.swapRanks(depth=0)
    if content(back.getRoot()) != c1 or not (back == f1):
        return fail("the second swap does not restore the flattened tensor")
    if content(f1.getRoot()) != c1:
        return fail("operand changed")
    return wf(r.getRoot()) >= 0 and mirror(r)


def _mk(tree, name, opt, box=None, S=4, noshape=False, fixed=None, canon=False, Sv=None):
    if Sv:
        # a chain skeleton ([[1]], [[[1]]]) inside a shape whose extents all differ
        ps = names("x", tree_params(tree))
        pre, _, cn = tree_pre(tree, ps)
        pre = pre + ["0 <= %s < %d" % (c, Sv[i]) for i, c in enumerate(cn)]
        d = tree_depth(tree)
        label = name + "(" + ",".join("%s=%s" % kv for kv in sorted(opt.items())) + ")"
        ob = Ob("%s/%s/shape%s" % (str(tree).replace(" ", ""), label.replace(" ", ""), "x".join(map(str, Sv))), "xform",
                dict(tree=tree, xf=name, opt=opt, depth=d, box=None, S=max(Sv), noshape=False, fixed=None, canon=False, Sv=list(Sv)), ps, pre)
        if opt.get("depth", 0) >= 1:
            ob.tags["alldefault_sub"] = alldefault_sub_expr(tree, ps)
        return ob
    if box:
        ps = names("v", box_size(box) - len(fixed or []))
        pre = []
        d = len(box)
    else:
        ps = names("x", tree_params(tree))
        pre, _, cn = tree_pre(tree, ps)
        pre = pre + bound_pre(cn, 0, S)
        d = tree_depth(tree) if tree != [] else 2
    an = names("p", xforms.xf_nargs(name, opt))
    if name == "updateCoords_inc":
        pre = pre + ["0 <= p0"]
    if name == "updateCoords_dec":
        pre = pre + ["%d <= p0" % S]
    label = name + "(" + ",".join("%s=%s" % kv for kv in sorted(opt.items())) + ")"
    ob = Ob("%s%s/%s" % ("noshape/" if noshape else "", str(box or tree).replace(" ", ""), label.replace(" ", "")), "xform",
            dict(tree=tree, xf=name, opt=opt, depth=d, box=box, S=S, noshape=noshape, fixed=fixed, canon=canon), ps + an, pre)
    if fixed:
        ob.name += "/fixed" + "".join(map(str, fixed))
    if canon:
        ob.name += "/canonical"
    if not box and opt.get("depth", 0) >= 1 and name != "updateCoords_inc" and name != "updateCoords_dec":
        ob.tags["alldefault_sub"] = alldefault_sub_expr(tree, ps)
    if not box and noshape and name == "flatten_unflatten":
        vals = _subtree_value_names(tree, ps)[0]
        ob.tags["all_default"] = " and ".join("%s == 0" % v for v in vals) if vals else "True"
    return ob


def xf2(tier):
    l = [("flattenRanks", {}), ("flattenRanks", {"style": "pair"}), ("flattenRanks", {"style": "linear"}), ("flatten_unflatten", {}),
         ("mergeRanks", {"style": "absolute"}), ("mergeRanks", {"style": "relative"}), ("swapRanks", {}), ("swap_swap", {}),
         ("split_flatten", {"step": 2}), ("updateCoords_inc", {}), ("updateCoords_dec", {}), ("updateCoords_inc", {"depth": 1}),
         ("updateCoords_dec", {"depth": 1}), ("updatePayloads", {"depth": 1}), ("deepcopy", {})]
    return l


def xf3(tier):
    return [("flattenRanks", {"depth": 1}), ("flattenRanks", {"levels": 2}), ("flattenRanks", {"levels": 2, "style": "pair"}),
            ("flatten_unflatten", {"depth": 1}), ("flatten_unflatten", {"levels": 2}), ("swapRanks", {"depth": 1}), ("swapRanks", {}),
            ("mergeRanks", {"style": "absolute", "depth": 1}), ("updateCoords_dec", {"depth": 2}), ("updateCoords_inc", {"depth": 1}),
            ("updatePayloads", {"depth": 2}), ("split_flatten", {"step": 2, "depth": 1})]


def obligations(tier):
    import itertools
    q = tier == "quick"
    obs = []
    t2 = [[2, 1], [1, 1], [1, 0], [0, 1], []] if q else [[2, 1], [1, 1], [1, 0], [0, 1], [], [2, 2], [2, 0]]
    for tree in t2:
        for name, opt in xf2(tier):
            obs.append(_mk(tree, name, opt))
    t3 = [[[1]], [[1, 0]]] if q else [[[1]], [[1], [0]], [[1, 1]], [[2]], [[]]]      # ([[1],[1]]: flatten_unflatten / swapRanks at depth 1 do not finish inside the budget)
    for tree in t3:
        for name, opt in xf3(tier):
            obs.append(_mk(tree, name, opt))
    for name, opt in (("flatten_unflatten", {"depth": 1}), ("flatten_unflatten", {}), ("swap_swap", {"depth": 1}), ("flatten_unflatten", {"levels": 2})):
        obs.append(_mk([[1]], name, opt, Sv=[2, 3, 4]))
    obs.append(_mk([[[1]]], "flatten_unflatten", {"depth": 1, "levels": 2}, Sv=[2, 2, 3, 5]))
    for tree in ([[[1]]] if q else [[[1]], [[1, 1]], [[1], [1]]]):
        ps = names("x", tree_params(tree))
        pre, _, cn = tree_pre(tree, ps)
        ob = Ob("flatten-swap(depth=1)/%s" % str(tree).replace(" ", ""), "flatten_swap", dict(tree=tree, S=4), ps, pre + bound_pre(cn, 0, 4))
        ob.tags["alldefault_sub"] = alldefault_sub_expr(tree, ps)       # the first step is a depth-1 transform: known finding F16's region
        obs.append(ob)
    for tree in ([[[1]]] if q else [[[1]], [[1, 1]], [[1], [1]]]):
        for second in ("flatten", "merge"):
            ps = names("x", tree_params(tree))
            pre, _, cn = tree_pre(tree, ps)
            obs.append(Ob("flatten-twice/%s/%s" % (str(tree).replace(" ", ""), second), "flatten_twice", dict(tree=tree, S=4, second=second), ps, pre + bound_pre(cn, 0, 4)))
    if True:
        # two fibers at the transformed depth, one of them empty and one not
        for tree in ([[1], []], [[], [1]]):
            for name, opt in (("flatten_unflatten", {"depth": 1}), ("flattenRanks", {"depth": 1}), ("swapRanks", {"depth": 1})):
                obs.append(_mk(tree, name, opt))
    for tree in [[[[1]]]]:        # (the wider depth-4 skeletons [[[1,1]]], [[[1],[1]]] exceed the per-obligation limit: outside the claim)
        for name, opt in (("flatten_unflatten", {"depth": 1, "levels": 2}), ("flattenRanks", {"depth": 1, "levels": 2}), ("flatten_unflatten", {"levels": 3}),
                          ("swapRanks", {"depth": 2}), ("flatten_unflatten", {"depth": 2})):
            obs.append(_mk(tree, name, opt))
    for perm in itertools.permutations(range(2)):
        obs.append(_mk(None, "swizzleRanks", {"perm": list(perm)}, box=[2, 2], S=2))
    for perm in itertools.permutations(range(3)):
        if q:
            obs.append(_mk(None, "swizzleRanks", {"perm": list(perm)}, box=[2, 2, 2], S=2, fixed=[5, 0, 0, 7]))
            obs.append(_mk(None, "swizzleRanks", {"perm": list(perm)}, box=[2, 2, 2], S=2, fixed=[0, 0, 3, 0]))
            # sparse (canonical) boxes: consecutive points of the new order that differ at an upper level and agree at a lower one
            obs.append(_mk(None, "swizzleRanks", {"perm": list(perm)}, box=[2, 2, 2], S=2, fixed=[0, 0, 0, 7], canon=True))
            obs.append(_mk(None, "swizzleRanks", {"perm": list(perm)}, box=[2, 2, 2], S=2, fixed=[0, 3, 0, 0], canon=True))
            if list(perm) in ([1, 2, 0], [2, 0, 1]):
                obs.append(_mk(None, "swizzleRanks", {"perm": list(perm)}, box=[1, 2, 3], S=None, fixed=[0, 4, 0], canon=True))
        else:
            obs.append(_mk(None, "swizzleRanks", {"perm": list(perm)}, box=[2, 2, 2], S=2))
            obs.append(_mk(None, "swizzleRanks", {"perm": list(perm)}, box=[2, 2, 2], S=2, canon=True))
    if not q:
        for perm in itertools.permutations(range(3)):
            obs.append(_mk(None, "swizzleRanks", {"perm": list(perm)}, box=[3, 2, 2], S=3, fixed=[0, 0, 5, 0, 0, 0], canon=False))      # (all 12 cells symbolic = 4096 paths: too heavy)
            obs.append(_mk(None, "swizzleRanks", {"perm": list(perm)}, box=[2, 2, 3], S=3, fixed=[0, 0, 4, 0, 5, 0], canon=True))
    # estimated shapes
    for tree in ([[1, 1], [1, 0]] if q else t2):
        for name, opt in ([("flatten_unflatten", {}), ("swapRanks", {}), ("flattenRanks", {})] if q else xf2(tier)):
            if opt.get("style") == "linear":
                continue
            obs.append(_mk(tree, name, opt, noshape=True))
    return obs
