"""C07 — every traversal mode enumerates exactly the slice of content it names."""
from fvsym.engine import Ob
from fvsym.rt import *  # noqa

BOUNDS = {
    "quick": "1-level fibers with 0..3 stored elements, symbolic coordinates and values: iterOccupancy / iterRange(start,end) (unbounded symbolic range, None ends) / "
             "iterActive; iterShape(Ref), iterRangeShape(Ref)(start, end, step in {1,2}) with span <= 4; __iter__ under formats C and U; __reversed__; every start_pos; "
             "lazy fibers (a & b, project, prune) iterated twice and materialised with fromLazy; project(c -> c+o / o-c, interval) and prune(c < theta); "
             "coiterRangeShape(Ref), coiterShape(Ref) and coiterActiveShape(Ref) on two fibers; coiterShape(Ref) / coiterActiveShape(Ref), co-iterated fibers with different defaults, default iteration of a 'U' rank with a start_pos, traversals of fibers of sub-fibers, lazy results of fibers with a non-zero default, a search shortcut used before a dense (reference) traversal",
    "thorough": "fibers up to 4 elements, span <= 5, step 3, coiteration of 3 fibers",
}
OUTSIDE = "spans beyond the bound for shape loops; non-affine coordinate transforms; lazy fibers produced by populate (fromLazy documents it does not support them)"
ASSUMPTIONS = ["A1 integers only", "A2 transforms c -> c+o and c -> o-c, predicates c < theta"]


def _mk(sk, xs):
    n = sk["n"]
    cs, vs = list(xs[:n]), list(xs[n:2 * n])
    return cs, vs, xs[2 * n:]


def _present(cs, vs, lo=None, hi=None):
    out = []
    for i in range(len(cs)):
        if vs[i] != 0 and (lo is None or cs[i] >= lo) and (hi is None or cs[i] < hi):
            out.append(i)
    return out


def _same_elems(got, f, idx):
    """got = list of CoordPayload; must be exactly f's elements at positions idx (coordinate equal, payload identical)"""
    if len(got) != len(idx):
        return False
    for k, i in enumerate(idx):
        c, p = got[k]
        if c != f.coords[i] or p is not f.payloads[i]:
            return False
    return True


def ranges(sk, *xs):
    cs, vs, rest = _mk(sk, xs)
    mode = sk["mode"]
    f = Fiber(cs, vs)
    snap = raw(f)
    if mode == "occupancy":
        got = [(c, p) for c, p in f.iterOccupancy()]
        idx = _present(cs, vs)
    elif mode == "range":
        lo, hi = rest[0], rest[1]
        got = [(c, p) for c, p in f.iterRange(lo, hi)]
        idx = _present(cs, vs, lo, hi)
    elif mode == "range_open_lo":
        hi = rest[0]
        got = [(c, p) for c, p in f.iterRange(None, hi)]
        idx = _present(cs, vs, None, hi)
    elif mode == "range_open_hi":
        lo = rest[0]
        got = [(c, p) for c, p in f.iterRange(lo, None)]
        idx = _present(cs, vs, lo, None)
    elif mode == "active":
        lo, hi = rest[0], rest[1]
        f = Fiber(cs, vs, active_range=(lo, hi))
        got = [(c, p) for c, p in f.iterActive()]
        idx = _present(cs, vs, lo, hi)
    elif mode == "iter_C":
        got = [(c, p) for c, p in f]
        idx = _present(cs, vs)
    elif mode == "reversed":
        got = [(c, p) for c, p in reversed(f)]
        idx = list(reversed(range(len(cs))))
    if not _same_elems(got, f, idx):
        return fail("%s yielded the wrong elements" % mode)
    if raw(f) != snap:
        return fail("a non-reference traversal changed the fiber")
    return True


def ranges2(sk, lo, hi, *xs):
    """upper-rank fiber whose payloads are sub-fibers: a zero-length or all-default sub-fiber counts as empty and is not enumerated"""
    tree, mode = sk["tree"], sk["mode"]
    f, pos, _ = build_tree(tree, xs)
    snap = raw(f)
    pres = []
    for i, sub in enumerate(f.payloads):
        if any(pv(p) != 0 for p in sub.payloads):
            pres.append(i)
    if mode == "occupancy":
        got = [(c, p) for c, p in f.iterOccupancy()]
        idx = pres
    elif mode == "iter":
        got = [(c, p) for c, p in f]
        idx = pres
    elif mode == "range":
        got = [(c, p) for c, p in f.iterRange(lo, hi)]
        idx = [i for i in pres if lo <= f.coords[i] < hi]
    elif mode == "project":
        got = [(c - lo, p) for c, p in f.project(lambda c: c + lo)]
        idx = pres
    elif mode == "prune":
        got = [(c, p) for c, p in f.prune(lambda i, c, p: True)]
        idx = pres
    if not _same_elems(got, f, idx):
        return fail("%s over a fiber of sub-fibers yielded the wrong elements (empty sub-fibers must be skipped)" % mode)
    return raw(f) == snap or fail("traversal changed the tree")


def shapes(sk, lo, span, *xs):
    """dense traversals: every coordinate of the range, default for absent; Ref variants insert exactly the visited absent ones"""
    cs, vs, rest = _mk(sk, xs)
    mode, step = sk["mode"], sk["step"]
    hi = lo + span
    if mode in ("shape", "shapeRef"):
        lo = 0
        hi = sk["S"]
        f = Fiber(cs, vs, shape=hi)
    elif mode in ("activeShape", "activeShapeRef", "iter_U", "iter_U_sp"):
        f = Fiber(cs, vs, active_range=(lo, hi))
        if mode in ("iter_U", "iter_U_sp"):
            f.getRankAttrs().setFormat("U")
    else:
        f = Fiber(cs, vs)
    if sk.get("prelude") is not None and len(cs) > sk["prelude"]:
        # an earlier, legal use of a search shortcut on the same fiber leaves a saved position behind; it must not leak into the traversal
        pp = sk["prelude"]
        for _ in f.iterRange(None, None, start_pos=pp):
            pass
        f.getPayload(cs[pp], start_pos=pp)
    snap = raw(f)
    if mode == "shape":
        it = f.iterShape()
    elif mode == "shapeRef":
        it = f.iterShapeRef()
    elif mode == "rangeShape":
        it = f.iterRangeShape(lo, hi, step)
    elif mode == "rangeShapeRef":
        it = f.iterRangeShapeRef(lo, hi, step)
    elif mode == "activeShape":
        it = f.iterActiveShape()
    elif mode == "activeShapeRef":
        it = f.iterActiveShapeRef()
    elif mode == "iter_U_sp":
        it = f.__iter__(start_pos=0)       # a (trivially valid) search shortcut does not change what default iteration of a 'U' rank yields
    else:
        it = iter(f)
    got = [(c, p) for c, p in it]
    want = list(range(lo, hi, step))
    if len(got) != len(want):
        return fail("%s yielded %d coordinates, expected %d" % (mode, len(got), len(want)))
    ref = mode.endswith("Ref")
    for k, c in enumerate(want):
        if got[k][0] != c:
            return fail("coordinate differs")
        val = 0
        for i in range(len(cs)):
            if cs[i] == c:
                val = vs[i]
        if pv(got[k][1]) != val:
            return fail("payload value differs")
    after = raw(f)
    if not ref:
        if after != snap:
            return fail("non-reference dense traversal changed the fiber")
    else:
        # exactly the visited absent coordinates were inserted (with the default), nothing else changed
        exp = list(snap)
        for c in want:
            there = False
            for ec, ev in exp:
                if ec == c:
                    there = True
            if not there:
                exp.append((c, 0))
        exp.sort()
        if after != exp:
            return fail("reference traversal did not leave exactly the visited absent coordinates inserted")
        for k, c in enumerate(want):
            stored = None
            for fc, fp in zip(f.coords, f.payloads):
                if fc == c:
                    stored = fp
            if got[k][1] is not stored:
                return fail("reference variant did not yield the stored payload")
    return True


def startpos(sk, *xs):
    cs, vs, rest = _mk(sk, xs)
    s, mode = sk["s"], sk["mode"]
    f = Fiber(cs, vs)
    if mode == "occupancy":
        got = [(c, p) for c, p in f.iterOccupancy(start_pos=s)]
        idx = [i for i in _present(cs, vs) if i >= s]
    else:
        lo, hi = rest[0], rest[1]
        if s > 0 and not (cs[s - 1] < lo):
            return True          # start_pos skips elements inside the range: not a valid shortcut
        got = [(c, p) for c, p in f.iterRange(lo, hi, start_pos=s)]
        idx = [i for i in _present(cs, vs, lo, hi) if i >= s]
    if not _same_elems(got, f, idx):
        return fail("start_pos changed what is yielded")
    if len(idx) > 0 and f.getSavedPos() != idx[-1]:
        return fail("saved position is not the last yielded position")
    return True


def lazy(sk, *xs):
    na, nb, kind = sk["na"], sk["nb"], sk["kind"]
    ac, av = list(xs[:na]), list(xs[na:2 * na])
    bc, bv = list(xs[2 * na:2 * na + nb]), list(xs[2 * na + nb:2 * na + 2 * nb])
    rest = xs[2 * na + 2 * nb:]
    dflt = sk.get("default", 0)
    if dflt:
        # a non-zero leaf default: an element holding 0 is *present* and must survive materialisation, and the eager copy keeps the default
        a, b = Fiber(ac, av, default=dflt), Fiber(bc, bv, default=dflt)
    else:
        a, b = Fiber(ac, av), Fiber(bc, bv)
    if kind == "and":
        z = a & b
    elif kind == "or":
        z = a | b
    elif kind == "sub":
        z = a - b
    elif kind == "project":
        o = rest[0]
        z = a.project(lambda c: c + o)
    elif kind == "prune":
        th = rest[0]
        z = a.prune(lambda i, c, p: c < th)
    if not z.isLazy():
        return fail("result is not lazy")
    l1 = [(c, p) for c, p in z]
    l2 = [(c, p) for c, p in z]
    if len(l1) != len(l2):
        return fail("second traversal has a different length")
    for k in range(len(l1)):
        if l1[k][0] != l2[k][0]:
            return fail("second traversal differs")
    if kind in ("sub", "project", "prune"):
        e = Fiber.fromLazy(z)
        if e.isLazy():
            return fail("fromLazy returned a lazy fiber")
        want = [(c, pv(p)) for c, p in l1]
        if raw(e) != want:
            return fail("materialised fiber differs from the lazy traversal")
        if pv(e.getDefault()) != dflt:
            return fail("materialised fiber has default %r, the lazy fiber's is %r" % (pv(e.getDefault()), dflt))
    return True


def project(sk, o, lo, span, *xs):
    cs, vs, rest = _mk(sk, xs)
    sign, use_iv = sk["sign"], sk["interval"]
    hi = lo + span
    f = Fiber(cs, vs)
    snap = raw(f)
    fn = (lambda c: c + o) if sign > 0 else (lambda c: o - c)
    z = f.project(fn, interval=(lo, hi)) if use_iv else f.project(fn)
    got = [(c, p) for c, p in z]
    idx = _present(cs, vs)
    if sign < 0:
        idx = list(reversed(idx))
    want = []
    for i in idx:
        nc = fn(cs[i])
        if (not use_iv) or (lo <= nc < hi):
            want.append((nc, i))
    if len(got) != len(want):
        return fail("projection yielded %d elements, expected %d" % (len(got), len(want)))
    for k in range(len(want)):
        if got[k][0] != want[k][0] or got[k][1] is not f.payloads[want[k][1]]:
            return fail("projected element differs (coordinate or payload identity)")
    for k in range(len(got) - 1):
        if not (got[k][0] < got[k + 1][0]):
            return fail("projected coordinates not ascending")
    got2 = [(c, p) for c, p in z]
    if len(got2) != len(got):
        return fail("projection not re-iterable")
    if raw(f) != snap:
        return fail("projection changed its operand")
    return True


def prune(sk, th, *xs):
    cs, vs, rest = _mk(sk, xs)
    f = Fiber(cs, vs)
    z = f.prune(lambda i, c, p: c < th)
    got = [(c, p) for c, p in z]
    idx = [i for i in _present(cs, vs) if cs[i] < th]
    if not _same_elems(got, f, idx):
        return fail("prune yielded the wrong elements")
    # the position argument counts delivered (non-empty) elements
    seen = []
    z2 = f.prune(lambda i, c, p: seen.append(i) or True)
    n2 = len([1 for _ in z2])
    if seen != list(range(len(_present(cs, vs)))) or n2 != len(_present(cs, vs)):
        return fail("prune callback positions")
    return True


def coiter(sk, lo, span, *xs):
    na, nb, ref, step = sk["na"], sk["nb"], sk["ref"], sk["step"]
    ac, av = list(xs[:na]), list(xs[na:2 * na])
    bc, bv = list(xs[2 * na:2 * na + nb]), list(xs[2 * na + nb:2 * na + 2 * nb])
    hi = lo + span
    form = sk.get("form", "range")
    if form == "shape":
        # coiterShape(Ref): the whole shape of the *first* fiber (lo is pinned to 0 by the precondition, the shape is lo + span)
        a, b = Fiber(ac, av, shape=hi), Fiber(bc, bv, shape=hi + 2)
    elif form == "active":
        # coiterActiveShape(Ref): the active range of the *first* fiber
        a, b = Fiber(ac, av, shape=hi + 1, active_range=(lo, hi)), Fiber(bc, bv, shape=hi + 3)
    elif sk.get("bdef"):
        a, b = Fiber(ac, av), Fiber(bc, bv, default=sk["bdef"])      # each fiber's *own* default stands in for the coordinates it lacks
    else:
        a, b = Fiber(ac, av), Fiber(bc, bv)
    bdef = sk.get("bdef", 0)
    sa, sb = raw(a), raw(b)
    if form == "shape":
        z = Fiber.coiterShapeRef([a, b]) if ref else Fiber.coiterShape([a, b])
    elif form == "active":
        z = Fiber.coiterActiveShapeRef([a, b]) if ref else Fiber.coiterActiveShape([a, b])
    else:
        z = Fiber.coiterRangeShapeRef([a, b], lo, hi, step) if ref else Fiber.coiterRangeShape([a, b], lo, hi, step)
    got = [(c, pv(p)) for c, p in z]
    want = list(range(lo, hi, step))
    if len(got) != len(want):
        return fail("coiteration length")
    for k, c in enumerate(want):
        if got[k][0] != c:
            return fail("coordinate")
        va, vb = 0, bdef
        for i in range(na):
            if ac[i] == c:
                va = av[i]
        for i in range(nb):
            if bc[i] == c:
                vb = bv[i]
        if pv(got[k][1][0]) != va or pv(got[k][1][1]) != vb:
            return fail("payload values")
    if not ref:
        if raw(a) != sa or raw(b) != sb:
            return fail("non-reference coiteration changed an operand")
    else:
        for c in want:
            for g in (a, b):
                n = 0
                for gc in g.coords:
                    if gc == c:
                        n += 1
                if n != 1:
                    return fail("reference coiteration did not insert a visited coordinate exactly once")
        if len(a.coords) != na + len([c for c in want if all(x != c for x in ac)]):
            return fail("reference coiteration inserted something else")
    return wf(a, 1) >= 0 and wf(b, 1) >= 0


def obligations(tier):
    q = tier == "quick"
    obs = []
    N = 3 if q else 4
    for n in range(N + 1):
        cn, vn = names("c", n), names("v", n)
        base, pre = cn + vn, chain_pre(cn)
        for mode, extra in (("occupancy", []), ("range", ["lo", "hi"]), ("range_open_lo", ["hi"]), ("range_open_hi", ["lo"]),
                            ("active", ["lo", "hi"]), ("iter_C", []), ("reversed", [])):
            p2 = list(pre)
            if mode == "active":
                p2 += ["lo <= hi"]
            obs.append(Ob("ranges/%s/%d" % (mode, n), "ranges", dict(n=n, mode=mode), base + extra, p2))
        if n <= (2 if q else 3):
            for mode in ("rangeShape", "rangeShapeRef", "activeShape", "activeShapeRef", "iter_U", "iter_U_sp"):
                for step in ((1, 2) if mode.startswith("range") else (1,)):
                    p2 = pre + ["0 <= span <= %d" % (4 if q else 5)]
                    if mode in ("activeShape", "activeShapeRef", "iter_U", "iter_U_sp"):
                        p2 += ["lo <= %s < lo + span" % c for c in cn]
                    obs.append(Ob("shapes/%s/%d/step%d" % (mode, n, step), "shapes", dict(n=n, mode=mode, step=step), ["lo", "span"] + base, p2))
                    if n == 2 and step == 1 and mode in ("rangeShapeRef", "activeShapeRef", "rangeShape"):
                        obs.append(Ob("shapes/%s/%d/step%d/after-shortcut" % (mode, n, step), "shapes", dict(n=n, mode=mode, step=step, prelude=1),
                                      ["lo", "span"] + base, p2))
            for mode in ("shape", "shapeRef"):
                S = 3
                obs.append(Ob("shapes/%s/%d" % (mode, n), "shapes", dict(n=n, mode=mode, step=1, S=S), ["lo", "span"] + base,
                              pre + bound_pre(cn, 0, S) + ["lo == 0", "span == 0"]))
        for s in range(n):
            obs.append(Ob("startpos/occupancy/%d/%d" % (n, s), "startpos", dict(n=n, s=s, mode="occupancy"), base, pre))
            obs.append(Ob("startpos/range/%d/%d" % (n, s), "startpos", dict(n=n, s=s, mode="range"), base + ["lo", "hi"], pre))
        for sign in (1, -1):
            for iv in (False, True):
                obs.append(Ob("project/%d/%s/%s" % (n, "inc" if sign > 0 else "dec", "interval" if iv else "all"), "project",
                              dict(n=n, sign=sign, interval=iv), ["o", "lo", "span"] + base, pre + ["0 <= span"]))
        obs.append(Ob("prune/%d" % n, "prune", dict(n=n), ["th"] + base, pre))
    for tree in ([[1, 0], [1, 1], [0, 2]] if q else [[1, 0], [1, 1], [0, 2], [2, 1], [1, 0, 1]]):
        ps = names("x", tree_params(tree))
        pre, _, _ = tree_pre(tree, ps)
        for mode in ("occupancy", "iter", "range", "project", "prune"):
            obs.append(Ob("ranges2/%s/%s" % (mode, str(tree).replace(" ", "")), "ranges2", dict(tree=tree, mode=mode), ["lo", "hi"] + ps, pre))
    for na, nb in ([(1, 1), (2, 1), (2, 2)] if q else [(1, 1), (2, 1), (2, 2), (3, 2)]):
        an, bn = names("a", na), names("b", nb)
        base = an + names("u", na) + bn + names("w", nb)
        pre = chain_pre(an) + chain_pre(bn)
        for kind, extra in (("and", []), ("or", []), ("sub", []), ("project", ["o"]), ("prune", ["th"])):
            obs.append(Ob("lazy/%s/%dx%d" % (kind, na, nb), "lazy", dict(na=na, nb=nb, kind=kind), base + extra, pre))
            if kind in ("project", "prune", "sub") and nb == 1:
                obs.append(Ob("lazy/%s/%dx%d/default7" % (kind, na, nb), "lazy", dict(na=na, nb=nb, kind=kind, default=7), base + extra, pre))
    for na, nb in ([(0, 1), (1, 1), (2, 1)] if q else [(0, 1), (1, 1), (2, 1), (2, 2)]):
        an, bn = names("a", na), names("b", nb)
        base = an + names("u", na) + bn + names("w", nb)
        pre = chain_pre(an) + chain_pre(bn) + ["0 <= span <= %d" % (3 if q else 4)]
        for ref in (False, True):
            for step in (1, 2):
                obs.append(Ob("coiter/%s/%dx%d/step%d" % ("ref" if ref else "noref", na, nb, step), "coiter",
                              dict(na=na, nb=nb, ref=ref, step=step), ["lo", "span"] + base, pre))
                if step == 1 and (na, nb) == (1, 1):
                    obs.append(Ob("coiter/%s/%dx%d/step%d/default5" % ("ref" if ref else "noref", na, nb, step), "coiter",
                                  dict(na=na, nb=nb, ref=ref, step=step, bdef=5), ["lo", "span"] + base, pre))
            if (na, nb) != (2, 2):
                inb = ["0 <= %s" % c for c in an + bn]
                obs.append(Ob("coiter-shape/%s/%dx%d" % ("ref" if ref else "noref", na, nb), "coiter",
                              dict(na=na, nb=nb, ref=ref, step=1, form="shape"), ["lo", "span"] + base, pre + ["lo == 0", "1 <= span"] + inb + ["%s < span" % c for c in an]))
                obs.append(Ob("coiter-active/%s/%dx%d" % ("ref" if ref else "noref", na, nb), "coiter",
                              dict(na=na, nb=nb, ref=ref, step=1, form="active"), ["lo", "span"] + base, pre + ["0 <= lo"] + inb + ["%s <= lo + span" % c for c in an]))
    return obs
