"""C20 — encoding a tensor in a compression format loses nothing."""
import itertools

import fibertree.codec.tensor_codec as _tc
import fibertree.codec.formats.compression_format as _cf
import fibertree.codec.formats.coord_list as _cl
import fibertree.codec.formats.uncompressed as _un
import fibertree.codec.formats.bitvector as _bv
from fibertree import Codec
from fvsym.engine import Ob
from fvsym.envstubs import patched
from fvsym.rt import *  # noqa

BOUNDS = {
    "quick": "tensors of depth 1 (box 3), depth 2 (box 2x2) for all 3 + 9 descriptors over {U,C,B} with every leaf value symbolic (each may be 0: every sparsity pattern, empty "
             "fibers, all-zero tensor), with and without an imposed larger shape; depth 3 (2x2x2) for selected descriptors; all-C descriptors and CoordinateList.coordToHandle "
             "with symbolic coordinates and query; slice scan (setupSlice/nextInSlice/handleToCoord/handleToPayload) and getSize of every encoded fiber through a dict-backed cache stub; leaf fibers scanned in lockstep, masks of exactly 32 / 33 / 64 bits (imposed shapes), coordinate lists of 4-6 stored coordinates with symbolic coordinates and query",
    "thorough": "2x3 boxes for all 9 descriptors, all 27 descriptors on 2x2x2",
}
OUTSIDE = "formats H, T, R (not in the statement); cache hit/miss statistics; the debug prints (shadowed by a no-op: formatting would realise every symbol)"
ASSUMPTIONS = ["A1 integers only", "S5 dict-backed cache stub for boltons.LRU; print shadowed in the codec modules"]

MODS = [_tc, _cf, _cl, _un, _bv]


class Cache(dict):
    """S5: stands in for boltons.LRU"""
    hit_count = 0
    miss_count = 0


def _noprint(*a, **k):
    return None


def enc(t, desc, shape=None):
    codec = Codec(tuple(desc), [True] * len(desc))
    names_ = t.getRankIds()
    output = codec.get_output_dict(names_)
    ot = [list() for _ in range(len(desc) + 1)]
    codec.encode(-1, t.getRoot(), names_, output, ot, shape=shape)
    return output, ot


def decode(out, names_, desc, shape):
    """layout-only decoder: U positions implicit, C coordinates explicit, B one mask of `shape` bits per fiber; a non-leaf rank stores one cumulative
    child occupancy per stored element iff its child format is C or B (segment ends, restarting in every fiber); payloads_root[0] = top occupancy when
    the top format is C/B; fibers serialised depth-first."""
    d = len(desc)
    cpos = [0] * d
    ppos = [0] * d
    res = []

    def walk(i, prefix, count):
        f, S = desc[i], shape[i]
        pk = out["payloads_" + names_[i].lower()]
        ck = out["coords_" + names_[i].lower()]
        if f == "U":
            coords = list(range(S))
        elif f == "B":
            bits = ck[cpos[i]:cpos[i] + S]
            cpos[i] += S
            coords = [j for j, b in enumerate(bits) if b]
        else:
            coords = ck[cpos[i]:cpos[i] + count]
            cpos[i] += count
        if i == d - 1:
            vals = pk[ppos[i]:ppos[i] + len(coords)]
            ppos[i] += len(coords)
            for c, v in zip(coords, vals):
                if v != 0:
                    res.append((tuple(prefix + [c]), v))
            return
        if desc[i + 1] in ("C", "B"):
            ends = pk[ppos[i]:ppos[i] + len(coords)]
            ppos[i] += len(coords)
            prev = 0
            for c, e in zip(coords, ends):
                walk(i + 1, prefix + [c], e - prev)
                prev = e
        else:
            for c in coords:
                walk(i + 1, prefix + [c], None)

    n0 = out["payloads_root"][0] if desc[0] in ("C", "B") else None
    walk(0, [], n0)
    for i in range(d):
        if cpos[i] != len(out["coords_" + names_[i].lower()]) or ppos[i] != len(out["payloads_" + names_[i].lower()]):
            return None          # the layout stores words the decoder did not consume
    return res


def _nest(dims, xs, pos=0):
    if len(dims) == 1:
        return [xs[pos + i] for i in range(dims[0])], pos + dims[0]
    o = []
    for _ in range(dims[0]):
        n, pos = _nest(dims[1:], xs, pos)
        o.append(n)
    return o, pos


def _nest_content(nest, prefix=()):
    o = []
    for i, e in enumerate(nest):
        if isinstance(e, list):
            o.extend(_nest_content(e, prefix + (i,)))
        elif e != 0:
            o.append((prefix + (i,), e))
    return o


def _scan(fb, fmt, leaf):
    """elements of one encoded fiber through its own handle interface: list of (coord, payload handle resolved)"""
    out = []
    fb.cache = Cache()
    fb.setupSlice(0)
    for _ in range(64):
        h = fb.nextInSlice()
        if h is None:
            break
        c = fb.handleToCoord(h)
        ph = fb.handleToPayload(h)
        out.append((c, ph))
    return out


def sizes(sk, *xs):
    return encode(sk, *xs, _mode="size")


def encode(sk, *xs, _mode="decode"):
    dims, desc, imposed = sk["dims"], sk["desc"], sk.get("imposed")
    nest, _ = _nest(dims, xs)
    names_ = rank_ids_for(len(dims))
    t = Tensor.fromUncompressed(names_, nest)
    want = _nest_content(nest)
    shape = list(imposed) if imposed else None
    with patched(MODS, print=_noprint):
        out, ot = enc(t, desc, shape)
        got = decode(out, names_, desc, shape or dims)
        if _mode == "size":
            got = want
        if got is None:
            return fail("%s: the arrays hold words the documented layout does not account for" % "".join(desc))
        if got != want:
            return fail("%s: decoding by the documented layout gives %r, the tensor holds %r" % ("".join(desc), got, want))
        # every encoded fiber: handle interface and size
        d = len(desc)
        for i in range(d):
            S = (shape or dims)[i]
            leaf = i == d - 1
            child_cb = (not leaf) and desc[i + 1] in ("C", "B")
            for fb in ot[i + 1]:
                f = desc[i]
                if f == "U":
                    n = S
                    cwords = 0
                elif f == "C":
                    n = len(fb.coords)
                    cwords = n
                else:
                    n = sum(1 for b in fb.coords if b)
                    cwords = (S + 31) // 32
                words = cwords + (n if child_cb else 0) + (n if leaf else 0)
                if (f == "U" and n == 0):
                    continue
                if f == "C" and not leaf and child_cb and n == 0:
                    continue          # getSize asserts on an empty non-leaf C fiber; nothing is stored for it
                if _mode == "size" and fb.getSize() != words:
                    return fail("%s: a %s fiber at rank %d reports size %r, its layout stores %r words" % ("".join(desc), f, i, fb.getSize(), words))
                if leaf and _mode == "decode":
                    sc = _scan(fb, f, leaf)
                    if len(ot[i + 1]) >= 2 and fb is ot[i + 1][1]:
                        # two fibers of the rank scanned in lockstep (a loop nest walks an outer and an inner fiber at the same time):
                        # each fiber's slice position is its own
                        fa = ot[i + 1][0]
                        sa, sb = _scan(fa, f, leaf), sc
                        fa.cache = Cache(); fb.cache = Cache()
                        fa.setupSlice(0); fb.setupSlice(0)
                        la, lb = [], []
                        for _ in range(64):
                            ha = fa.nextInSlice()
                            hb = fb.nextInSlice()
                            if ha is not None:
                                la.append((fa.handleToCoord(ha), fa.handleToPayload(ha)))
                            if hb is not None:
                                lb.append((fb.handleToCoord(hb), fb.handleToPayload(hb)))
                            if ha is None and hb is None:
                                break
                        if la != sa or lb != sb:
                            return fail("%s: two fibers of rank %d scanned in lockstep yield %r / %r, scanned alone %r / %r" % ("".join(desc), i, la, lb, sa, sb))
                    if f == "U":
                        elems = [(c, fb.payloads[ph]) for c, ph in sc]
                        if elems != [(j, fb.payloads[j]) for j in range(S)]:
                            return fail("U slice scan")
                    elif f == "C":
                        elems = [(c, fb.payloads[ph]) for c, ph in sc]
                        if elems != list(zip(fb.coords, fb.payloads)):
                            return fail("C slice scan yields %r, stored %r" % (elems, list(zip(fb.coords, fb.payloads))))
                    else:
                        elems = [(c, fb.payloads[ph]) for c, ph in sc]
                        stored = [j for j, b in enumerate(fb.coords) if b]
                        if elems != list(zip(stored, fb.payloads)):
                            return fail("B slice scan yields %r, stored %r" % (elems, list(zip(stored, fb.payloads))))
    return True


def clist(sk, qy, *xs):
    """all-C encoding with symbolic coordinates; coordToHandle(query) = handle of the first stored coordinate >= query"""
    n = sk["n"]
    if sk.get("present"):
        cs, vs = list(xs[:n]), [3 + i for i in range(n)]        # longer lists: all elements present, coordinates and query symbolic
    else:
        cs, vs = list(xs[:n]), list(xs[n:2 * n])
    t = Tensor.fromFiber(["K"], Fiber(cs, vs), shape=[sk["S"]])
    with patched(MODS, print=_noprint):
        out, ot = enc(t, ["C"])
        pres = [(c, v) for c, v in zip(cs, vs) if v != 0]
        if list(zip(out["coords_k"], out["payloads_k"])) != pres or out["payloads_root"] != [len(pres)]:
            return fail("C encoding of a 1-level tensor")
        fb = ot[1][0]
        fb.cache = Cache()
        h = fb.coordToHandle(qy)
        want = None
        for i, (c, v) in enumerate(pres):
            if c >= qy and want is None:
                want = i
        if h != want:
            return fail("coordToHandle(%r) = %r, first stored coordinate not below the query is at %r" % (qy, h, want))
        if fb.getSize() != 2 * len(pres):
            return fail("getSize of a leaf C fiber")
    return True


def clist2(sk, *xs):
    """C,C encoding of a 2-level tree with symbolic coordinates and values"""
    tree = sk["tree"]
    f, pos, _ = build_tree(tree, xs)
    t = Tensor.fromFiber(["M", "K"], f, shape=[sk["S"], sk["S"]])
    with patched(MODS, print=_noprint):
        out, ot = enc(t, ["C", "C"])
        got = decode(out, ["M", "K"], ["C", "C"], [sk["S"], sk["S"]])
    want = content(t.getRoot())
    if got is None or got != want:
        return fail("C,C decode gives %r, tensor holds %r" % (got, want))
    return True


def obligations(tier):
    q = tier == "quick"
    obs = []
    for desc in itertools.product("UCB", repeat=1):
        obs.append(Ob("enc/3/%s" % "".join(desc), "encode", dict(dims=[3], desc=list(desc)), names("v", 3), []))
        obs.append(Ob("enc/3/%s/imposed5" % "".join(desc), "encode", dict(dims=[3], desc=list(desc), imposed=[5]), names("v", 3), []))
    for desc in itertools.product("UCB", repeat=2):
        obs.append(Ob("enc/2x2/%s" % "".join(desc), "encode", dict(dims=[2, 2], desc=list(desc)), names("v", 4), []))
        if "B" in desc:
            # a mask of exactly one / two machine words and of one word plus one bit
            for big in (32, 33, 64):
                obs.append(Ob("enc/2x2/%s/imposed%dx%d" % ("".join(desc), big, big), "encode", dict(dims=[2, 2], desc=list(desc), imposed=[big, big]), names("v", 4), []))
        obs.append(Ob("enc/2x2/%s/imposed3x3" % "".join(desc), "encode", dict(dims=[2, 2], desc=list(desc), imposed=[3, 3]), names("v", 4), []))
        if not q:
            obs.append(Ob("enc/2x3/%s" % "".join(desc), "encode", dict(dims=[2, 3], desc=list(desc)), names("v", 6), []))
    d3 = [("U", "C", "B"), ("C", "C", "C"), ("B", "U", "C"), ("C", "B", "U")] if q else list(itertools.product("UCB", repeat=3))
    for desc in d3:
        obs.append(Ob("enc/2x2x2/%s" % "".join(desc), "encode", dict(dims=[2, 2, 2], desc=list(desc)), names("v", 8), []))
    for o in list(obs):
        if o.fn == "encode":
            obs.append(Ob(o.name.replace("enc/", "size/"), "sizes", o.sk, o.params, o.pre))
    for n in range(4):
        cn = names("c", n)
        obs.append(Ob("clist/%d" % n, "clist", dict(n=n, S=1 << 40), ["qy"] + cn + names("v", n), chain_pre(cn) + bound_pre(cn, 0, 1 << 40)))
    for n in ((4, 5, 6) if q else (4, 5, 6, 7, 8)):
        cn = names("c", n)
        obs.append(Ob("clist/%d/present" % n, "clist", dict(n=n, S=1 << 40, present=True), ["qy"] + cn, chain_pre(cn) + bound_pre(cn, 0, 1 << 40)))
    for tree in ([[1, 1], [2, 1], [1, 0]] if q else [[1, 1], [2, 1], [1, 0], [2, 2]]):
        ps = names("x", tree_params(tree))
        pre, _, cn = tree_pre(tree, ps)
        obs.append(Ob("clist2/%s" % str(tree).replace(" ", ""), "clist2", dict(tree=tree, S=1 << 40), ps, pre + bound_pre(cn, 0, 1 << 40)))
    return obs
