"""C16 — traces are well-formed: one sorted, correctly addressed row per traced event."""
import os
import shutil
import tempfile

from fvsym.engine import Ob
from fvsym.rt import *  # noqa
from fvsym import kernels

BOUNDS = {
    "quick": "depth-1 loops over fibers with 0..3 stored elements (symbolic coordinates/values, explicit defaults): iter trace; a & b with intersect_0/1 + iter traces on "
             "0..2 x 0..2 elements; project trace with symbolic offset and interval; depth-2 matrix-vector nest (2x3, A symbolic incl. empty rows) with all seven trace types "
             "(iter, intersect_0/1, populate_1, populate_read_0/write_0) consumable; flush independence: the same nest on concrete operands with a symbolic flush "
             "threshold num_cached_uses >= 2, file content versus in-memory rows; any subset of trace types registered, range-cut inner loops, a trace requested both as a file and as a consumable trace, an outer rank with tuple coordinates (associateShape), a dense reference traversal as outer loop, traces drained once per outer iteration",
    "thorough": "adds 3x3 intersections, depth-3 matrix-matrix nest, explicit-zero operands in the depth-2 nest, inserting populate (stamp order and completeness only)",
}
OUTSIDE = "traces emitted through the Fiber.trace() helper with a user-supplied iteration_num; trace *files* with symbolic content (writing realises the symbols)"
ASSUMPTIONS = ["A1 integers only", "A3 Metrics global state reset by the harness prologue"]


def _hdr(ranks):
    return [r + "_pos" for r in ranks] + list(ranks) + ["fiber_pos"]


def _ordered(rows, n, strict):
    st = [tuple(r[:n]) for r in rows]
    for i in range(len(st) - 1):
        if strict and not (st[i] < st[i + 1]):
            return False
        if not strict and not (st[i] <= st[i + 1]):
            return False
    return True


def _merge_rows(ac, bc):
    """rows the two-finger merge of two present-coordinate lists touches on each side: (coordinate, index in the list)"""
    i = j = 0
    ra, rb = [], []
    while i < len(ac) and j < len(bc):
        if ac[i] == bc[j]:
            ra.append((ac[i], i)); rb.append((bc[j], j)); i += 1; j += 1
        elif ac[i] < bc[j]:
            ra.append((ac[i], i)); i += 1
        else:
            rb.append((bc[j], j)); j += 1
    if i < len(ac):
        ra.append((ac[i], i))
    if j < len(bc):
        rb.append((bc[j], j))
    return ra, rb


def flat_iter(sk, *xs):
    """for k, v in f: one row per element delivered, position = raw index in the fiber"""
    n = sk["n"]
    cs, vs = list(xs[:n]), list(xs[n:2 * n])
    reset_metrics()
    f = Fiber(cs, vs)
    f.getRankAttrs().setId("K")
    Metrics.beginCollect()
    Metrics.trace("K", type_="iter", consumable=True)
    seen = []
    for k, v in f:
        seen.append(k)
    rows = Metrics.consumeTrace("K", "iter")
    Metrics.endCollect()
    want = [(cs[i], i) for i in range(n) if vs[i] != 0]
    if seen != [c for c, _ in want]:
        return fail("loop bodies")
    if not want:
        return rows == [] or rows == [_hdr(["K"])] or fail("rows for an empty traversal")
    if rows[0] != _hdr(["K"]):
        return fail("header %r" % (rows[0],))
    body = rows[1:]
    if len(body) != len(want):
        return fail("iter trace has %d rows, %d elements were delivered" % (len(body), len(want)))
    if not _ordered(body, 1, True):
        return fail("iter stamps not strictly increasing")
    for r, (c, i) in zip(body, want):
        if r[1] != c or r[2] != i:
            return fail("row %r does not address element (coord %r, raw position %r)" % (r, c, i))
    return True


def flat_isect(sk, *xs):
    na, nb = sk["na"], sk["nb"]
    ac, bc = list(xs[:na]), list(xs[na:na + nb])
    reset_metrics()
    a, b = Fiber(ac, [1] * na), Fiber(bc, [1] * nb)
    a.getRankAttrs().setId("K")
    b.getRankAttrs().setId("K")
    types = sk.get("types") or ["iter", "intersect_0", "intersect_1"]      # any subset of trace types may be registered
    Metrics.beginCollect()
    for ty in types:
        Metrics.trace("K", type_=ty, consumable=True)
    seen = []
    for k, (av, bv) in a & b:
        seen.append(k)
    tr = {ty: Metrics.consumeTrace("K", ty) for ty in types}
    Metrics.endCollect()
    ra, rb = _merge_rows(ac, bc)
    for ty, want in (("intersect_0", ra), ("intersect_1", rb), ("iter", [(c, i) for i, c in enumerate(seen)])):
        if ty not in types:
            continue
        rows = tr[ty]
        if not want:
            if rows not in ([], [_hdr(["K"])]):
                return fail("%s rows without an access" % ty)
            continue
        if rows[0] != _hdr(["K"]):
            return fail("%s header" % ty)
        body = rows[1:]
        if len(body) != len(want):
            return fail("%s has %d rows, expected %d" % (ty, len(body), len(want)))
        if not _ordered(body, 1, ty == "iter"):
            return fail("%s stamps out of order" % ty)
        for r, (c, i) in zip(body, want):
            if r[1] != c or r[2] != i:
                return fail("%s row %r does not address (coord %r, position %r)" % (ty, r, c, i))
    return True


def flat_project(sk, o, lo, span, *xs):
    n = sk["n"]
    cs, vs = list(xs[:n]), list(xs[n:2 * n])
    hi = lo + span
    reset_metrics()
    f = Fiber(cs, vs)
    f.getRankAttrs().setId("K")
    Metrics.beginCollect()
    Metrics.trace("K", "project_0", consumable=True)
    seen = []
    for m, p in f.project(trans_fn=lambda k: k + o, rank_id="M", interval=(lo, hi), tick=True).iterOccupancy(tick=False):
        seen.append(m)
    rows = Metrics.consumeTrace("K", "project_0")
    Metrics.endCollect()
    want = [(cs[i], i) for i in range(n) if vs[i] != 0 and lo <= cs[i] + o < hi]
    if seen != [c + o for c, _ in want]:
        return fail("projected coordinates delivered")
    if not want:
        return True
    if rows[0] != _hdr(["K"]):
        return fail("header %r" % (rows[0],))
    body = rows[1:]
    if len(body) != len(want):
        return fail("project trace has %d rows for %d delivered elements" % (len(body), len(want)))
    if not _ordered(body, 1, False):
        return fail("stamps out of order")
    for r, (c, i) in zip(body, want):
        if r[1] != c or r[2] != i:
            return fail("project row %r does not address source element (coord %r, raw position %r)" % (r, c, i))
    return True


TYPES = {"M": ["iter", "populate_read_0", "populate_write_0", "populate_1"], "K": ["iter", "intersect_0", "intersect_1"]}


def nest(sk, *xs):
    """matrix-vector nest with all seven trace types"""
    M, K = sk["adims"]
    A = [[xs[m * K + k] for k in range(K)] for m in range(M)]
    B = sk["B"]
    explicit = sk.get("explicit", False)
    reset_metrics()
    a = kernels.mk_tensor(["M", "K"], A, explicit)
    b = kernels.mk_tensor(["K"], B, explicit)
    z = Tensor(rank_ids=["M"], shape=[M])
    Metrics.beginCollect()
    for r, tys in TYPES.items():
        for ty in tys:
            Metrics.trace(r, type_=ty, consumable=True)
    bodies_m, bodies_k = [], []
    for m, (z_ref, a_k) in z.getRoot() << a.getRoot():
        bodies_m.append(m)
        for k, (a_val, b_val) in a_k & b.getRoot():
            bodies_k.append((m, k))
            z_ref += a_val * b_val
    tr = {(r, ty): Metrics.consumeTrace(r, ty) for r, tys in TYPES.items() for ty in tys}
    Metrics.endCollect()
    aroot = a.getRoot()
    broot = b.getRoot()
    bpres = [(c, i) for i, (c, p) in enumerate(zip(broot.coords, broot.payloads)) if pv(p) != 0]
    # expected rows
    exp = {("M", "iter"): [((m,), i) for i, m in enumerate(bodies_m)],
           ("K", "iter"): [], ("K", "intersect_0"): [], ("K", "intersect_1"): [], ("M", "populate_1"): []}
    per_m = {}
    for i, (m, sub) in enumerate(zip(aroot.coords, aroot.payloads)):
        if sub.isEmpty():
            continue
        exp[("M", "populate_1")].append(((m,), i))
        apres = [(c, j) for j, (c, p) in enumerate(zip(sub.coords, sub.payloads)) if pv(p) != 0]
        ra, rb = _merge_rows([c for c, _ in apres], [c for c, _ in bpres])
        exp[("K", "intersect_0")] += [((m, c), apres[j][1]) for c, j in ra]
        exp[("K", "intersect_1")] += [((m, c), bpres[j][1]) for c, j in rb]
        n = 0
        for (mm, k) in bodies_k:
            if mm == m:
                exp[("K", "iter")].append(((m, k), n))
                n += 1
    if bodies_m != [pt[0] for pt, _ in exp[("M", "populate_1")]]:
        return fail("M loop bodies")
    for key, want in exp.items():
        r, ty = key
        ranks = ["M"] if r == "M" else ["M", "K"]
        rows = tr[key]
        if not want:
            if rows not in ([], [_hdr(ranks)]):
                return fail("%s-%s rows without an access: %r" % (r, ty, rows))
            continue
        if not rows or rows[0] != _hdr(ranks):
            return fail("%s-%s header" % (r, ty))
        body = rows[1:]
        if len(body) != len(want):
            return fail("%s-%s has %d rows, %d accesses happened" % (r, ty, len(body), len(want)))
        if not _ordered(body, len(ranks), ty == "iter"):
            return fail("%s-%s stamps out of order" % (r, ty))
        for row, (pt, pos) in zip(body, want):
            if tuple(row[len(ranks):2 * len(ranks)]) != tuple(pt):
                return fail("%s-%s row %r does not carry the coordinates %r of the element touched" % (r, ty, row, pt))
            if row[-1] != pos:
                return fail("%s-%s row %r: position is not the element's index %r in its fiber" % (r, ty, row, pos))
    # destination side (z starts empty: appends, not an inserting populate): kept coordinates with their final positions
    zr = z.getRoot()
    rows = tr[("M", "populate_write_0")]
    kept = [(c, i) for i, c in enumerate(zr.coords)]
    body = rows[1:] if rows else []
    if [(r[1], r[2]) for r in body] != kept:
        return fail("populate_write_0 rows %r do not address the kept destination elements %r" % (body, kept))
    if not _ordered(body, 1, False):
        return fail("populate_write_0 stamps out of order")
    rd = tr[("M", "populate_read_0")]
    if rd not in ([], [_hdr(["M"])]):
        return fail("populate_read_0 rows although the destination held nothing to read: %r" % (rd,))
    return True


def nest_range(sk, lo, hi, *xs):
    """depth-2 nest whose inner co-iteration is walked with iterRange(lo, hi) / iterActive: every outer iteration's accesses land in the
    same intersect_0/1 traces (labels restart per outer iteration), rows follow the merge up to the point where the consumer stops"""
    M, K = sk["adims"]
    A = [[xs[m * K + k] for k in range(K)] for m in range(M)]
    B = sk["B"]
    reset_metrics()
    a = kernels.mk_tensor(["M", "K"], A, False)
    b = kernels.mk_tensor(["K"], B, False)
    Metrics.beginCollect()
    for ty in ("iter", "intersect_0", "intersect_1"):
        Metrics.trace("K", type_=ty, consumable=True)
    Metrics.trace("M", type_="iter", consumable=True)
    bodies = []
    for m, a_k in a.getRoot():
        z = a_k & b.getRoot()
        if sk["mode"] == "active":
            z.setActive((lo, hi))
            it = z.iterActive()
        else:
            it = z.iterRange(lo, hi)
        for k, (a_val, b_val) in it:
            bodies.append((m, k))
    tr = {ty: Metrics.consumeTrace("K", ty) for ty in ("iter", "intersect_0", "intersect_1")}
    Metrics.consumeTrace("M", "iter")
    Metrics.endCollect()
    bpres = [k for k in range(K) if B[k] != 0]
    exp0, exp1, expi = [], [], []
    for m in range(M):
        apres = [k for k in range(K) if A[m][k] != 0]
        if not apres:
            continue
        i = j = 0
        stopped = False
        n = 0
        while i < len(apres) and j < len(bpres):
            if apres[i] == bpres[j]:
                exp0.append((m, apres[i])); exp1.append((m, bpres[j]))
                c = apres[i]
                i += 1; j += 1
                if c >= hi:
                    stopped = True          # the consumer breaks on the first delivered coordinate >= hi: the merge is abandoned
                    break
                if c >= lo:
                    expi.append((m, c, n))
                n += 1
            elif apres[i] < bpres[j]:
                exp0.append((m, apres[i])); i += 1
            else:
                exp1.append((m, bpres[j])); j += 1
        if not stopped:
            if i < len(apres):
                exp0.append((m, apres[i]))
            if j < len(bpres):
                exp1.append((m, bpres[j]))
    if bodies != [(m, c) for m, c, _ in expi]:
        return fail("loop bodies %r, expected %r" % (bodies, [(m, c) for m, c, _ in expi]))
    for ty, want in (("intersect_0", exp0), ("intersect_1", exp1)):
        rows = tr[ty]
        body = rows[1:] if rows else []
        if [(r[2], r[3]) for r in body] != want:
            return fail("%s rows %r do not match the accesses %r (one row per traced access, every outer iteration in the same trace)" % (ty, [(r[2], r[3]) for r in body], want))
        if not _ordered(body, 2, False):
            return fail("%s stamps out of order" % ty)
    body = tr["iter"][1:] if tr["iter"] else []
    if [(r[2], r[3]) for r in body] != [(m, c) for m, c, _ in expi]:
        return fail("K iter rows do not match the loop bodies")
    if not _ordered(body, 2, True):
        return fail("K iter stamps not strictly increasing: %r" % (body,))
    return True


def inserting(sk, *xs):
    """inserting populate: destination-side traces only need to be stamp-ordered and complete; source side addressed exactly"""
    nz, na = sk["nz"], sk["na"]
    zc = list(xs[:nz]); ac = list(xs[nz:nz + na])
    S = sk["S"]
    reset_metrics()
    tz = Tensor.fromFiber(["M"], Fiber(zc, [5] * nz), shape=[S])
    ta = Tensor.fromFiber(["M"], Fiber(ac, [7] * na), shape=[S])
    Metrics.beginCollect()
    for ty in ("populate_read_0", "populate_write_0", "populate_1", "iter"):
        Metrics.trace("M", type_=ty, consumable=True)
    n = 0
    for m, (z_ref, a_val) in tz.getRoot() << ta.getRoot():
        z_ref += a_val
        n += 1
    tr = {ty: Metrics.consumeTrace("M", ty) for ty in ("populate_read_0", "populate_write_0", "populate_1", "iter")}
    Metrics.endCollect()
    if n != na:
        return fail("bodies")
    for ty, rows in tr.items():
        if rows and rows[0] != _hdr(["M"]):
            return fail("%s header" % ty)
        if not _ordered(rows[1:], 1, ty == "iter"):
            return fail("%s stamps out of order: %r" % (ty, rows))
    src = tr["populate_1"][1:]
    if [(r[1], r[2]) for r in src] != [(c, i) for i, c in enumerate(ac)]:
        return fail("populate_1 rows do not address the source elements")
    w = tr["populate_write_0"][1:]
    for c in ac:
        if not any(r[1] == c for r in w):
            return fail("populate_write_0 incomplete: no row for written coordinate %r" % c)
    return True


def ref_nest(sk, *xs):
    """depth-2 nest whose *outer* loop is a dense reference traversal (iterShapeRef / iterActiveShapeRef / iterRangeShapeRef): the rows of the
    inner rank's trace still name the outer element being visited"""
    M, K = sk["adims"]
    A = [[xs[m * K + k] for k in range(K)] for m in range(M)]
    reset_metrics()
    a = kernels.mk_tensor(["M", "K"], A, False)
    Metrics.beginCollect()
    Metrics.trace("K", type_="iter", consumable=True)
    root = a.getRoot()
    if sk["outer"] == "shape":
        it = root.iterShapeRef()
    elif sk["outer"] == "active":
        it = root.iterActiveShapeRef()
    else:
        it = root.iterRangeShapeRef(0, M)
    want = []
    for m, a_k in it:
        for k, v in a_k:
            want.append((m, k))
    rows = Metrics.consumeTrace("K", "iter")
    Metrics.endCollect()
    body = rows[1:] if rows else []
    if [(r[2], r[3]) for r in body] != want:
        return fail("K iter rows name the elements %r, visited were %r" % ([(r[2], r[3]) for r in body], want))
    return _ordered(body, 2, True) or fail("stamps not strictly increasing")


def drain_nest(sk, *xs):
    """consumable traces drained once per outer iteration (batches kept) deliver, concatenated, exactly the rows of a single drain at the
    end - also when some drains find nothing"""
    M, K = sk["adims"]
    A = [[xs[m * K + k] for k in range(K)] for m in range(M)]
    B = sk["B"]
    tys = ("iter", "intersect_0", "intersect_1")
    outs = []
    for mode in ("end", "each"):
        reset_metrics()
        a = kernels.mk_tensor(["M", "K"], A, True)       # explicit zeros: all-zero rows are visited by getPayload-style loops below
        b = kernels.mk_tensor(["K"], B, False)
        Metrics.beginCollect()
        for ty in tys:
            Metrics.trace("K", type_=ty, consumable=True)
        got = {ty: [] for ty in tys}
        batches = {ty: [] for ty in tys}
        for m in range(M):
            a_k = a.getRoot().getPayload(m)
            for k, (av, bv) in a_k & b.getRoot():
                pass
            if mode == "each":
                for ty in tys:
                    batches[ty].append(Metrics.consumeTrace("K", ty))
        if mode == "each":
            for ty in tys:
                for bt in batches[ty]:
                    got[ty] += list(bt)
        else:
            for ty in tys:
                got[ty] = list(Metrics.consumeTrace("K", ty))
        Metrics.endCollect()
        outs.append(got)
    for ty in tys:
        if outs[0][ty] != outs[1][ty]:
            return fail("%s: rows drained once per outer iteration %r differ from a single drain %r" % (ty, outs[1][ty], outs[0][ty]))
    return True


def tuple_nest(sk, *xs):
    """depth-2 nest whose outer rank has tuple coordinates (a flattened rank whose shape is registered with Metrics.associateShape):
    the rows of the inner rank's trace name the outer element by its flattened integer coordinate, whether or not the outer rank is traced"""
    S0, S1, NK = sk["S0"], sk["S1"], sk["NK"]
    cells = [(i, j) for i in range(S0) for j in range(S1)]
    rows_ = [[xs[c * NK + k] for k in range(NK)] for c in range(len(cells))]
    cs, ps = [], []
    for c, vals in zip(cells, rows_):
        kc = [k for k in range(NK) if vals[k] != 0]
        if kc:
            cs.append(c)
            ps.append(Fiber(kc, [vals[k] for k in kc]))
    reset_metrics()
    t = Tensor.fromFiber(["MN", "K"], Fiber(cs, ps))
    Metrics.beginCollect()
    Metrics.associateShape("MN", (S0, S1))
    Metrics.trace("K", type_="iter", consumable=True)
    if sk["outer"]:
        Metrics.trace("MN", type_="iter", consumable=True)
    want = []
    for mn, a_k in t.getRoot():
        for k, v in a_k:
            want.append((mn[0] * S1 + mn[1], k))
    rows = Metrics.consumeTrace("K", "iter")
    if sk["outer"]:
        Metrics.consumeTrace("MN", "iter")
    Metrics.endCollect()
    body = rows[1:] if rows else []
    if rows and rows[0] != ["MN_pos", "K_pos", "MN", "K", "fiber_pos"]:
        return fail("header %r" % (rows[0],))
    for r in body:
        if len(r) != 5 or isinstance(r[2], tuple):
            return fail("row %r does not match the header (the outer tuple coordinate must appear flattened)" % (r,))
    if [(r[2], r[3]) for r in body] != want:
        return fail("rows name the elements %r, touched were %r" % ([(r[2], r[3]) for r in body], want))
    return _ordered(body, 2, True) or fail("stamps not strictly increasing")


def flush(sk, n):
    """file-backed trace content does not depend on the flush threshold, and equals the in-memory rows"""
    A, B = sk["A"], sk["B"]
    d = os.path.join(tempfile.gettempdir(), "fvsym-c16-%d" % os.getpid())
    os.makedirs(d, exist_ok=True)
    try:
        outs = []
        for mode in (("mem", "file", "both") if sk.get("both") else ("mem", "file")):
            reset_metrics()
            a = kernels.mk_tensor(["M", "K"], A, False)
            b = kernels.mk_tensor(["K"], B, False)
            z = Tensor(rank_ids=["M"], shape=[len(A)])
            Metrics.beginCollect(os.path.join(d, "t" + mode))         # one file prefix per mode: nothing is read back from an earlier mode's files
            if mode in ("file", "both"):
                Metrics.setNumCachedUses(n)
            for r, tys in TYPES.items():
                for ty in tys:
                    if mode == "both":
                        # the same trace requested as a file first and as a consumable trace afterwards: it is delivered both ways
                        Metrics.trace(r, type_=ty)
                        Metrics.trace(r, type_=ty, consumable=True)
                    else:
                        Metrics.trace(r, type_=ty, consumable=(mode == "mem"))
            for m, (z_ref, a_k) in z.getRoot() << a.getRoot():
                for k, (a_val, b_val) in a_k & b.getRoot():
                    z_ref += a_val * b_val
            if mode == "mem":
                outs.append({(r, ty): Metrics.consumeTrace(r, ty) for r, tys in TYPES.items() for ty in tys})
                Metrics.endCollect()
            else:
                both_mem = None
                if mode == "both":
                    both_mem = {(r, ty): Metrics.consumeTrace(r, ty) for r, tys in TYPES.items() for ty in tys}
                Metrics.endCollect()
                if both_mem is not None and both_mem != outs[0]:
                    return fail("a trace requested both as a file and as a consumable trace delivers other in-memory rows than a consumable-only one")
                got = {}
                for r, tys in TYPES.items():
                    for ty in tys:
                        p = os.path.join(d, "t%s-%s-%s.csv" % (mode, r, ty))
                        rows = []
                        if os.path.exists(p):
                            with open(p) as fh:
                                for line in fh.read().splitlines():
                                    rows.append(line.split(","))
                        got[(r, ty)] = rows
                outs.append(got)
            Metrics.setNumCachedUses(1000) if Metrics.isCollecting() else None
        Metrics.num_cached_uses = 1000
        mem = outs[0]
        for fil in outs[1:]:
            for key, rows in mem.items():
                want = [[str(v) for v in row] for row in rows]
                if fil[key] != want:
                    return fail("file trace %s-%s differs from the in-memory rows at this flush threshold: %r vs %r" % (key[0], key[1], fil[key], want))
        return True
    finally:
        Metrics.num_cached_uses = 1000
        shutil.rmtree(d, ignore_errors=True)


def _drift(vs):
    """an explicit default precedes a delivered element: occupancy ordinal != raw index"""
    t = ["(%s == 0 and %s != 0)" % (vs[i], vs[j]) for i in range(len(vs)) for j in range(i + 1, len(vs))]
    return " or ".join(t) if t else "False"


def obligations(tier):
    q = tier == "quick"
    obs = []
    for n in range(4):
        cn = names("c", n)
        obs.append(Ob("flat/iter/%d" % n, "flat_iter", dict(n=n), cn + names("v", n), chain_pre(cn)))
        ob = Ob("flat/project/%d" % n, "flat_project", dict(n=n), ["o", "lo", "span"] + cn + names("v", n), chain_pre(cn) + ["0 <= span"])
        ob.tags["drift"] = _drift(names("v", n))
        obs.append(ob)
    N = 2 if q else 3
    for na in range(N + 1):
        for nb in range(N + 1):
            an, bn = names("a", na), names("b", nb)
            obs.append(Ob("flat/isect/%dx%d" % (na, nb), "flat_isect", dict(na=na, nb=nb), an + bn, chain_pre(an) + chain_pre(bn)))
            if na and nb:
                for types in (["intersect_0"], ["intersect_1"], ["iter"], ["intersect_1", "iter"]):
                    obs.append(Ob("flat/isect/%dx%d/only-%s" % (na, nb, "+".join(types)), "flat_isect", dict(na=na, nb=nb, types=types), an + bn,
                                  chain_pre(an) + chain_pre(bn)))
    for B in ([[2, 0, 3], [1, 1, 1]] if q else [[2, 0, 3], [1, 1, 1], [0, 0, 0], [0, 4, 0]]):
        obs.append(Ob("nest/mv2x3/%s" % "".join(map(str, B)), "nest", dict(adims=[2, 3], B=B), names("v", 6), []))
    ob = Ob("nest/mv2x3/explicit/230", "nest", dict(adims=[2, 3], B=[2, 3, 0], explicit=True), names("v", 6), [])
    v = names("v", 6)
    ob.tags["drift"] = "%s or %s or ((%s) and not (%s))" % (_drift(v[:3]), _drift(v[3:]), " and ".join("%s == 0" % x for x in v[:3]), " and ".join("%s == 0" % x for x in v[3:]))
    obs.append(ob)
    for mode in ("range", "active"):
        obs.append(Ob("nest-range/%s/mv2x3/111" % mode, "nest_range", dict(adims=[2, 3], B=[1, 1, 1], mode=mode), ["lo", "hi"] + names("v", 6), ["lo <= hi"]))
        if not q:
            obs.append(Ob("nest-range/%s/mv2x3/203" % mode, "nest_range", dict(adims=[2, 3], B=[2, 0, 3], mode=mode), ["lo", "hi"] + names("v", 6), ["lo <= hi"]))
    for nz, na in ([(1, 1), (2, 1), (1, 2)] if q else [(1, 1), (2, 1), (1, 2), (2, 2)]):
        zn, an = names("z", nz), names("a", na)
        obs.append(Ob("inserting/%dx%d" % (nz, na), "inserting", dict(nz=nz, na=na, S=8), zn + an, chain_pre(zn) + chain_pre(an) + bound_pre(zn + an, 0, 8)))
    for A, B in [([[1, 0, 2], [0, 3, 4]], [5, 6, 0]), ([[1, 1, 1], [1, 1, 1]], [1, 1, 1]), ([[0, 0, 0], [0, 0, 0]], [1, 1, 1])]:
        obs.append(Ob("flush/%s" % "".join(str(v) for r in A for v in r), "flush", dict(A=A, B=B), ["n"], ["2 <= n"]))
    obs.append(Ob("drain-nest/2x2/20", "drain_nest", dict(adims=[2, 2], B=[2, 0]), names("v", 4), []))
    obs.append(Ob("drain-nest/3x2/03", "drain_nest", dict(adims=[3, 2], B=[0, 3]), names("v", 6), []))
    for outer in ("shape", "active", "range"):
        obs.append(Ob("ref-nest/%s/2x2" % outer, "ref_nest", dict(adims=[2, 2], outer=outer), names("v", 4), []))
    for outer in (False, True):
        obs.append(Ob("tuple-nest/2x2x2/%s" % ("outer-traced" if outer else "outer-untraced"), "tuple_nest", dict(S0=2, S1=2, NK=2, outer=outer), names("v", 8), []))
    obs.append(Ob("flush/both/102034", "flush", dict(A=[[1, 0, 2], [0, 3, 4]], B=[5, 6, 0], both=True), ["n"], ["2 <= n"]))
    return obs
