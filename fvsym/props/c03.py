"""C03 — point access behaves like a map from points to values."""
from fvsym.engine import Ob
from fvsym.rt import *  # noqa

BOUNDS = {
    "quick": "tensor-owned trees of skeleton 0/1/2/3-fiber, [1,1], [2,1], [1,0], [] and depth-3 [[1]] with symbolic coordinates and values; one read phase "
             "(getPayload full/prefix/caller default, getPosition) at a symbolic point, one reference write (<<= or +=) at a second symbolic point, "
             "read-back at both; every start_pos 0..n on 1-level fibers; rank-0 tensor; assignment of a fiber at a partial point (prefix handle <<= fiber); pinned-coordinate counterparts of the 2- and 3-level reference-write obligations; start_pos legality as in the library's own assertion (position 0 always legal)",
    "thorough": "adds [2,2], [[1,1]] depth-3 skeletons ([[1],[1]] for getPositionRef only), 4-fibers for start_pos, two successive reference writes",
}
OUTSIDE = "trace= side effects (C16), lazy fibers (rejected by assertion), unordered fibers"
ASSUMPTIONS = ["A1 integers only", "A4 points no longer than the tree depth"]


def flat(f, prefix=()):
    """all stored leaves incl. explicit defaults: list of (point, value)"""
    out = []
    for c, p in zip(f.coords, f.payloads):
        if isinstance(p, Fiber):
            out.extend(flat(p, prefix + (c,)))
        else:
            out.append((prefix + (c,), pv(p)))
    return out


def lookup(listing, pt, dflt):
    for p, v in listing:
        if p == pt:
            return v
    return dflt


def stored(listing, pt):
    for p, v in listing:
        if p == pt:
            return True
    return False


def walk(f, pt):
    """raw descent to the payload object stored at pt (None if absent)"""
    node = f
    for c in pt:
        idx = None
        for i in range(len(node.coords)):
            if node.coords[i] == c:
                idx = i
        if idx is None:
            return None
        node = node.payloads[idx]
    return node


def rw(sk, *xs):
    tree, d, kind = sk["tree"], sk["depth"], sk["kind"]
    f, pos, _ = build_tree(tree, xs)
    t = Tensor.fromFiber(rank_ids_for(d), f)
    f = t.getRoot()
    pt = tuple(xs[pos:pos + d]); pos += d
    w = xs[pos]; pos += 1
    q = tuple(xs[pos:pos + d]); pos += d
    dflt = xs[pos]
    l0 = flat(f)
    snap = raw(f)
    rl0 = [list(r.fibers) for r in t.ranks]
    # ---------------- reads: correct and pure
    v = t.getPayload(*q)
    if pv(v) != lookup(l0, q, 0):
        return fail("getPayload(q) != last value written / default")
    v2 = f.getPayload(*q, default=dflt, allocate=False)
    if stored(l0, q):
        if pv(v2) != lookup(l0, q, 0):
            return fail("getPayload(default=) on a stored point")
    elif pv(v2) != dflt:
        return fail("caller-supplied default not returned for an absent point")
    if d >= 2:
        sub = f.getPayload(q[0])
        if not isinstance(sub, Fiber):
            return fail("prefix read did not return a fiber")
        want = [(p[1:], val) for p, val in l0 if p[0] == q[0]]
        if flat(sub) != want:
            return fail("prefix read returned a fiber with other content")
    ppos = f.getPosition(q[0])
    wantpos = None
    for i in range(len(snap)):
        if snap[i][0] == q[0]:
            wantpos = i
    if ppos != wantpos:
        return fail("getPosition")
    if raw(f) != snap:
        return fail("a read changed the tree")
    for i, r in enumerate(t.ranks):
        if not same_objects(r.fibers, rl0[i]):
            return fail("a read changed rank list %d" % i)
    # ---------------- reference write
    if kind == "posref":
        ppos = f.getPositionRef(pt[0])
        if not (0 <= ppos < len(f.coords)) or f.coords[ppos] != pt[0]:
            return fail("getPositionRef did not return the position of the coordinate")
        l1 = flat(f)
        for p, val in l0:
            if lookup(l1, p, None) != val:
                return fail("getPositionRef disturbed another point")
        return wf(f, d) >= 0 and mirror(t)
    r = t.getPayloadRef(*pt)
    old = lookup(l0, pt, 0)
    if pv(r) != old:
        return fail("reference does not show the current value")
    if walk(f, pt) is not r:
        return fail("reference does not alias the stored payload")
    if kind == "assign":
        r <<= w
        new = w
    else:
        r += w
        new = old + w
    l1 = flat(f)
    for p, val in l0:
        if p != pt and (not stored(l1, p) or lookup(l1, p, None) != val):
            return fail("write disturbed another point")
    if not stored(l1, pt) or lookup(l1, pt, None) != new:
        return fail("written value not stored")
    if len(l1) != len(l0) + (0 if stored(l0, pt) else 1):
        return fail("write changed the number of stored points unexpectedly")
    if pv(t.getPayload(*pt)) != new:
        return fail("later read does not see the write")
    if pv(f.getPayload(*q)) != (new if q == pt else lookup(l0, q, 0)):
        return fail("later read of q wrong")
    if walk(f, pt) is not r:
        return fail("handle no longer aliases the stored payload after the write")
    if wf(f, d) < 0:
        return fail("not well formed")
    return mirror(t)


def prefix_assign(sk, *xs):
    """assignment at a *partial* point: the handle of prefix (p0,) is assigned a fiber; afterwards the values under that prefix are exactly the
    assigned fiber's (nothing stale survives), every other prefix is undisturbed, and the handle still aliases the stored sub-fiber"""
    tree, d, n = sk["tree"], sk["depth"], sk["n"]
    f, pos, _ = build_tree(tree, xs)
    t = Tensor.fromFiber(rank_ids_for(d), f)
    f = t.getRoot()
    p0 = xs[pos]; pos += 1
    gc, gv = list(xs[pos:pos + n]), list(xs[pos + n:pos + 2 * n]); pos += 2 * n
    q = xs[pos]
    l0 = flat(f)
    r = t.getPayloadRef(p0)
    if not isinstance(r, Fiber):
        return fail("partial-point reference is not a fiber")
    r <<= Fiber(gc, gv)
    l1 = flat(f)
    for p, val in l0:
        if p[0] != p0 and lookup(l1, p, None) != val:
            return fail("assignment at a prefix disturbed a point under another prefix")
    under = [(p[1:], val) for p, val in l1 if p[0] == p0]
    want = [((c,), v) for c, v in zip(gc, gv)]
    if [(p, v) for p, v in under if v != 0] != [(p, v) for p, v in want if v != 0]:
        return fail("after assigning a fiber at prefix (p0,) the values under it are not the assigned fiber's")
    got = t.getPayload(p0, q)
    exp = 0
    for c, v in zip(gc, gv):
        if c == q:
            exp = v
    if pv(got) != exp:
        return fail("read under the assigned prefix returns %r, the assigned fiber holds %r there" % (pv(got), exp))
    if walk(f, (p0,)) is not r:
        return fail("handle no longer aliases the stored sub-fiber")
    return wf(f, d) >= 0 and mirror(t)


def rw2(sk, *xs):
    """two successive reference writes then read-back of both (last write wins on equal points)"""
    tree, d = sk["tree"], sk["depth"]
    f, pos, _ = build_tree(tree, xs)
    t = Tensor.fromFiber(rank_ids_for(d), f)
    f = t.getRoot()
    p1 = tuple(xs[pos:pos + d]); pos += d
    w1 = xs[pos]; pos += 1
    p2 = tuple(xs[pos:pos + d]); pos += d
    w2 = xs[pos]
    l0 = flat(f)
    r1 = t.getPayloadRef(*p1)
    r1 <<= w1
    r2 = t.getPayloadRef(*p2)
    r2 += w2
    e1 = w1
    e2 = (w1 if p1 == p2 else lookup(l0, p2, 0)) + w2
    if p1 == p2:
        e1 = e2
        if r1 is not r2:
            return fail("two references to one point are different boxes")
    if pv(t.getPayload(*p1)) != e1 or pv(t.getPayload(*p2)) != e2:
        return fail("read-back after two writes")
    if pv(r1) != e1 or pv(r2) != e2:
        return fail("handles do not show current values")
    l2 = flat(f)
    for p, val in l0:
        if p != p1 and p != p2 and lookup(l2, p, None) != val:
            return fail("write disturbed another point")
    return wf(f, d) >= 0 and mirror(t)


def startpos(sk, *xs):
    """a legal search-start shortcut never changes an answer"""
    n, s = sk["n"], sk["s"]
    cs, vs = list(xs[:n]), list(xs[n:2 * n])
    c = xs[2 * n]
    f = Fiber(cs, vs)
    g = Fiber(cs, vs)
    if not (s < n and (s == 0 or cs[s] <= c)):
        return True   # start_pos not legal for this query (getPayload's own assertion: position 0 always is, others need coords[s] <= coord)
    a0 = pv(g.getPayload(c))
    a1 = pv(f.getPayload(c, start_pos=s))
    if a0 != a1:
        return fail("getPayload answer changed by start_pos")
    if f.getPosition(c, start_pos=s) != g.getPosition(c):
        return fail("getPosition answer changed by start_pos")
    if raw(f) != raw(g):
        return fail("read with start_pos changed the fiber")
    r0 = g.getPayloadRef(c)
    r1 = f.getPayloadRef(c, start_pos=s)
    if pv(r0) != pv(r1) or raw(f) != raw(g):
        return fail("getPayloadRef differs under start_pos")
    sp = f.getSavedPos()
    if not (0 <= sp < len(f.coords)) or f.coords[sp] != c:
        return fail("saved position does not address the element")
    if f.getPositionRef(c, start_pos=s) != g.getPositionRef(c):
        return fail("getPositionRef differs")
    return True


def _mk_prefix(tree, n):
    ps = names("x", tree_params(tree))
    pre, _, cn = tree_pre(tree, ps)
    g = names("g", n)
    return Ob("prefix-assign/%s/%d" % (str(tree).replace(" ", ""), n), "prefix_assign", dict(tree=tree, depth=2, n=n), ps + ["p0"] + g + names("u", n) + ["q"],
              pre + chain_pre(g))


def rank0(sk, w, v):
    t = Tensor(rank_ids=[])
    r = t.getPayloadRef()
    r <<= w
    if pv(t.getPayload()) != w:
        return fail("rank-0 read after write")
    r += v
    return pv(t.getPayload()) == w + v and t.getPayloadRef() is r


def _mk(tree, kind, fn="rw", pin=False):
    d = tree_depth(tree) if tree != [] else 2
    ps = names("x", tree_params(tree))
    pre, _, cn = tree_pre(tree, ps)
    extra = names("p", d) + ["w"] + names("q", d) + ["dflt"]
    if fn == "rw2":
        extra = names("p", d) + ["w1"] + names("q", d) + ["w2"]
    name = "%s/%s/%s" % (fn, str(tree).replace(" ", ""), kind)
    if pin:
        # the tree's own coordinates are pinned to 10, 20, 30, ... (values, points and written values stay symbolic): a cheaper
        # quick-tier counterpart of an obligation whose fully symbolic form only fits the thorough tier
        pre = pre + ["%s == %d" % (c, 10 * (i + 1)) for i, c in enumerate(cn)]
        name += "/pinned"
    return Ob(name, fn, dict(tree=tree, depth=d, kind=kind), ps + extra, pre)


def obligations(tier):
    q = tier == "quick"
    obs = []
    trees = [0, 1, 2, 3, [], [1, 1], [2, 1], [1, 0], [[1]]]
    if not q:
        trees += [[2, 2], [0, 1], [[1, 1]], [[1], [1]], [[0]]]
    for tree in trees:
        for kind in ("assign", "add", "posref"):
            if tree == [[1], [1]] and kind != "posref":
                continue       # 4800+ paths, does not finish inside the thorough budget: outside the claim (the [[1,1]] and [[1]] skeletons cover depth 3)
            obs.append(_mk(tree, kind))
    for tree in ([1, 2, [1, 1]] if q else [1, 2, 3, [1, 1], [2, 1], [1, 0]]):
        obs.append(_mk(tree, "two", fn="rw2"))
    if q:
        for tree in ([1, 1], [2, 1], [[1]], [[1, 1]]):
            for kind in ("assign", "add"):
                obs.append(_mk(tree, kind, pin=True))
    for n in ((1, 2, 3) if q else (1, 2, 3, 4)):
        for s in range(n):
            obs.append(Ob("startpos/%d/%d" % (n, s), "startpos", dict(n=n, s=s), names("c", n) + names("v", n) + ["q"], chain_pre(names("c", n))))
    obs.append(Ob("rank0", "rank0", {}, ["w", "v"], []))
    for tree, n in ([([1], 1), ([2], 1), ([1, 1], 0), ([], 1)] if q else [([1], 1), ([2], 1), ([1, 1], 0), ([], 1), ([2], 2), ([2, 1], 1), ([1, 0], 2)]):
        obs.append(_mk_prefix(tree, n))
    return obs
