"""C13 — conversions between representations are lossless."""
import os
import shutil
import tempfile

import fibertree.core.fiber as _fm
import fibertree.core.tensor as _tm
from fvsym.engine import Ob
from fvsym.envstubs import FakeRandom, FakeYaml, patched
from fvsym.rt import *  # noqa
from fvsym.props.c03 import flat

BOUNDS = {
    "quick": "fromUncompressed/uncompress on rectangular nests 3, 2x2, 2x3, 2x2x2 with every entry symbolic (default 0) and 2x2 with the non-zero default 9; "
             "fiber2dict/dict2fiber and Tensor.dump/fromYAMLfile, Fiber.dump/fromYAMLfile through the in-memory YAML contract stub S4 on skeletons 2, [1,1], [2,1], [1,0] "
             "and rank-0; fromRandom through S3 with symbolic draw outcomes for shapes [3], [2,2], density 1.0 and 0.5, two seeds; concrete runs through the real PyYAML; 2x2x2 and 2x1x1x2 nests with half of the entries fixed (all-default depth-2 slice, mixed slice, default 9); a second dump/load round trip of the loaded tensor",
    "thorough": "nests 4, 3x3, 1x1x1x2, 2x2x2 with symbolic default; YAML stub on [2,2], [[1]]",
}
OUTSIDE = ("the YAML text layer (PyYAML emitter/resolver work on strings: exercised with concrete values only) and CPython's Mersenne Twister "
           "(replaced by contract stubs S3/S4); float entries")
ASSUMPTIONS = ["A1 integers only", "S3 random contract", "S4 yaml contract: safe_load(dump(d)) == d"]


def nest_from(dims, xs, pos=0):
    if len(dims) == 1:
        return [xs[pos + i] for i in range(dims[0])], pos + dims[0]
    out = []
    for _ in range(dims[0]):
        n, pos = nest_from(dims[1:], xs, pos)
        out.append(n)
    return out, pos


def nest_content(nest, default, prefix=()):
    out = []
    for i, e in enumerate(nest):
        if isinstance(e, list):
            out.extend(nest_content(e, default, prefix + (i,)))
        elif e != default:
            out.append((prefix + (i,), e))
    return out


def uncomp(sk, *xs):
    dims = sk["dims"]
    n = box_size(dims)
    default = sk.get("default", 0)
    if sk.get("fixed") is not None:
        # part of the nest is a concrete pattern (keeps the path count of deep nests down): symbolic entries first, then the fixed ones
        xs = list(xs[:n - len(sk["fixed"])]) + list(sk["fixed"])
    nest, _ = nest_from(dims, xs)
    if sk.get("tensor"):
        t = Tensor.fromUncompressed(rank_ids_for(len(dims)), nest, default=default)
        f = t.getRoot()
        if t.getShape() != dims:
            return fail("tensor shape is not the nest's dimensions")
    else:
        f = Fiber.fromUncompressed(nest, default=default)
    want = nest_content(nest, default)
    if content(f, default) != want:
        return fail("content differs from the nest's non-default entries")
    for pt, v in flat(f):
        if v == default:
            return fail("an explicit default was stored")
    def noempty(g):
        for p in g.payloads:
            if isinstance(p, Fiber) and (len(p.coords) == 0 or not noempty(p)):
                return False
        return True
    if not noempty(f):
        return fail("an empty sub-fiber was stored")
    back = f.uncompress(list(dims))
    if back != nest:
        return fail("uncompress(shape) does not return the original nest")
    if sk.get("tensor") and len(want) > 0:
        if f.uncompress() != nest:
            return fail("uncompress() with the tensor's own shape differs")
    return True


def yaml_rt(sk, *xs):
    tree, d = sk["tree"], sk["depth"]
    f, pos, _ = build_tree(tree, xs)
    fy = FakeYaml()
    with patched([_fm, _tm], yaml=fy, open=fy.open):
        if sk["what"] == "tensor":
            S = sk["S"]
            t = Tensor.fromFiber(rank_ids_for(d), f, shape=[S] * d, name="T1")
            t.dump("mem.yaml")
            u = Tensor.fromYAMLfile("mem.yaml")
            if not (u == t) or content(u.getRoot()) != content(t.getRoot()):
                return fail("reloaded tensor differs")
            if u.getRankIds() != t.getRankIds() or u.getShape() != t.getShape() or u.getName() != t.getName():
                return fail("rank ids / shape / name not preserved: %r %r %r" % (u.getRankIds(), u.getShape(), u.getName()))
            # a loaded tensor is a tensor like any other: dumping *it* and loading again changes nothing either
            u.dump("mem2.yaml")
            v = Tensor.fromYAMLfile("mem2.yaml")
            if not (v == t) or v.getRankIds() != t.getRankIds() or v.getShape() != t.getShape() or v.getName() != t.getName():
                return fail("second dump/load round trip: rank ids / shape / name %r %r %r (original shape %r)" % (v.getRankIds(), v.getShape(), v.getName(), t.getShape()))
            if u.getShape(authoritative=True) != t.getShape(authoritative=True):
                return fail("a tensor loaded from YAML reports its shape as %r, the dumped one as %r (authoritative)" % (u.getShape(authoritative=True), t.getShape(authoritative=True)))
            return mirror(u) and mirror(v)
        if sk["what"] == "fiber":
            f.dump("mem.yaml")
            g = Fiber.fromYAMLfile("mem.yaml")
            if raw(g) != raw(f):
                return fail("reloaded fiber differs")
            return True
        if sk["what"] == "dict":
            g = Fiber.dict2fiber(f.fiber2dict())
            return raw(g) == raw(f) and g == f
        if sk["what"] == "rank0":
            t = Tensor.fromUncompressed([], xs[0])
            t.setName("Z")
            t.dump("mem.yaml")
            u = Tensor.fromYAMLfile("mem.yaml")
            return pv(u.getRoot()) == xs[0] and u.getName() == "Z" and u.getRankIds() == []
    return False


def yaml_real(sk):
    """the real PyYAML text layer, concrete values only (no quantified claim)"""
    d = tempfile.mkdtemp(prefix="fvsym-yaml-")
    try:
        p = os.path.join(d, "x.yaml")
        if sk["what"] == "tensor":
            t = Tensor.fromUncompressed(["M", "K"], sk["nest"], name="T")
            if sk.get("flatten"):
                t = t.flattenRanks()
            t.dump(p)
            try:
                u = Tensor.fromYAMLfile(p)
            except SystemExit:
                return fail("a dumped tensor cannot be loaded back (the loader calls exit())")
            return (u == t) and u.getRankIds() == t.getRankIds() and u.getShape() == t.getShape() and u.getName() == t.getName()
        f = Fiber.fromUncompressed(sk["nest"])
        f.dump(p)
        return Fiber.fromYAMLfile(p) == f
    finally:
        shutil.rmtree(d, ignore_errors=True)


def from_random(sk, s1, s2, iv, *xs):
    shape, dens = sk["shape"], sk["density"]
    n = box_size(shape)
    nb = n + shape[0] if len(shape) > 1 else n      # generous number of random() draws
    pos = 0
    seqs = []
    for seed in (s1, s2):
        bs = [x != 0 for x in xs[pos:pos + nb]]; pos += nb
        vs = list(xs[pos:pos + n]); pos += n
        seqs.append((seed, bs, vs))
    fr = FakeRandom(seqs)
    with patched([_fm], random=fr):
        if sk.get("tensor"):
            mk = lambda s: Tensor.fromRandom(rank_ids_for(len(shape)), list(shape), dens, iv, seed=s).getRoot()
        else:
            mk = lambda s: Fiber.fromRandom(list(shape), dens, iv, seed=s)
        a = mk(s1)
        b = mk(s2)
        c = mk(s1)
    if fr.violated:
        return True      # draw outside [1, interval]: excluded by the precondition
    if raw(a) != raw(c):
        return fail("same seed gave different trees")
    for pt, v in flat(a) + flat(b):
        for k in range(len(shape)):
            if not (0 <= pt[k] < shape[k]):
                return fail("coordinate outside the requested shape")
    dd = dens if isinstance(dens, list) else [1.0] * (len(shape) - 1) + [dens]
    if all(x >= 1.0 for x in dd):
        fl = flat(a)
        if len(fl) != n:
            return fail("density 1 did not fill the shape")
        for k in range(n):
            if fl[k][1] != seqs[0][2][k]:
                return fail("density 1: a point does not hold its drawn value")
    return wf(a, len(shape)) >= 0


def obligations(tier):
    q = tier == "quick"
    obs = []
    dl = [[3], [2, 2], [2, 3], [2, 2, 2]] if q else [[3], [4], [2, 2], [2, 3], [3, 3], [2, 2, 2], [1, 1, 1, 2]]
    for dims in dl:
        for tensor in (False, True):
            nm = "x".join(map(str, dims))
            obs.append(Ob("uncomp/%s/%s" % (nm, "tensor" if tensor else "fiber"), "uncomp", dict(dims=dims, tensor=tensor), names("v", box_size(dims)), []))
    if q:
        # deeper nests with half of the entries fixed: an all-default depth-2 slice next to symbolic entries, and a mixed slice
        for dims, fixed, dflt in (([2, 2, 2], [0, 0, 0, 0], 0), ([2, 2, 2], [5, 0, 0, 7], 0), ([2, 2, 2], [9, 9, 9, 9], 9), ([2, 1, 1, 2], [0, 0], 0), ([2, 1, 1, 2], [0, 3], 0)):
            for tensor in (False, True):
                nm = "x".join(map(str, dims)) + "/fixed" + "".join(map(str, fixed)) + ("/default%d" % dflt if dflt else "")
                sk = dict(dims=dims, tensor=tensor, fixed=fixed)
                if dflt:
                    sk["default"] = dflt
                obs.append(Ob("uncomp/%s/%s" % (nm, "tensor" if tensor else "fiber"), "uncomp", sk, names("v", box_size(dims) - len(fixed)), []))
    for dims in ([[2, 2]] if q else [[2, 2], [3], [2, 2, 2]]):
        nm = "x".join(map(str, dims))
        for tensor in (False, True):
            obs.append(Ob("uncomp-default/%s/%s" % (nm, "tensor" if tensor else "fiber"), "uncomp", dict(dims=dims, tensor=tensor, default=9),
                          names("v", box_size(dims)), []))
    S = 4
    for tree in ([2, [1, 1], [2, 1], [1, 0]] if q else [2, 3, [1, 1], [2, 1], [1, 0], [2, 2], [[1]]]):
        d = tree_depth(tree)
        ps = names("x", tree_params(tree))
        pre, _, cn = tree_pre(tree, ps)
        for what in ("tensor", "fiber", "dict"):
            obs.append(Ob("yaml/%s/%s" % (what, str(tree).replace(" ", "")), "yaml_rt", dict(tree=tree, depth=d, what=what, S=S), ps,
                          pre + (bound_pre(cn, 0, S) if what == "tensor" else [])))
    obs.append(Ob("yaml/rank0", "yaml_rt", dict(tree=1, depth=1, what="rank0"), ["x0", "x1"], []))
    for shape, dens in [([3], 1.0), ([3], 0.5), ([2, 2], 1.0), ([2, 2], 0.5)] + ([] if q else [([2, 2], [0.5, 0.5]), ([2, 2, 2], 1.0)]):
        n = box_size(shape)
        nb = n + shape[0] if len(shape) > 1 else n
        for tensor in (False, True):
            if tensor and isinstance(dens, list):
                continue
            ps = ["s1", "s2", "iv"] + names("b", nb) + names("v", n) + names("c", nb) + names("u", n)
            pre = ["1 <= iv"] + ["1 <= %s <= iv" % x for x in names("v", n) + names("u", n)] + ["0 <= %s <= 1" % x for x in names("b", nb) + names("c", nb)]
            obs.append(Ob("random/%s/%s/%s" % ("x".join(map(str, shape)), dens, "tensor" if tensor else "fiber"), "from_random",
                          dict(shape=shape, density=dens, tensor=tensor), ps, pre))
    obs.append(Ob("yaml-real/tensor", "yaml_real", dict(what="tensor", nest=[[1, 0], [0, 2]]), [], [], concrete=True))
    obs.append(Ob("yaml-real/tensor-allzero", "yaml_real", dict(what="tensor", nest=[[0, 0], [0, 0]]), [], [], concrete=True))
    obs.append(Ob("yaml-real/fiber", "yaml_real", dict(what="fiber", nest=[0, 3, 0, 4]), [], [], concrete=True))
    obs.append(Ob("yaml-real/tensor-tuplecoords", "yaml_real", dict(what="tensor", nest=[[1, 0], [0, 2]], flatten=True), [], [], concrete=True))
    return obs
