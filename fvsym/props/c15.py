"""C15 — metrics collection is transparent, exact and session-isolated."""
import copy

from fvsym.engine import Ob
from fvsym.rt import *  # noqa
from fvsym import kernels

BOUNDS = {
    "quick": "kernels dot (K=3), matrix-vector 2x3 in loop orders MK and KM, row reduction 2x3, matrix-matrix 2x2x2 (MNK) with one operand symbolic (every sparsity pattern); "
             "collection off versus on with trace subsets {none, iter only, all seven types} registered as consumable traces; counters compared with what the loop bodies "
             "executed; a fresh session after three kinds of earlier session (other ranks + matchRanks, same ranks partially consumed, aborted mid-kernel) against a cold run; matrix-vector with the output obtained by getPayloadRef and with the reduction rank walked densely (zero operands multiplied), Compute.numOps / numIters against the executed counts",
    "thorough": "adds tiled dataflows, matrix-vector 3x3, explicit-zero operands, every subset of trace types per rank",
}
OUTSIDE = "file-backed traces (C16 covers flush independence); metrics of the traffic/compute post-processing models; tiled dataflows on operands that store all-default sub-fibers (region of known finding F16)"
ASSUMPTIONS = ["A1 integers only", "A3 Metrics global state reset by the harness prologue", "S1, S2"]

TYPES = {"M": ["iter", "populate_read_0", "populate_write_0", "populate_1"], "K": ["iter", "intersect_0", "intersect_1"],
         "N": ["iter", "populate_read_0", "populate_write_0", "populate_1"]}


def _run(sk, A, B, cnt):
    kind, variant = sk["kind"], sk["variant"]
    ex = sk.get("explicit", False)
    if kind == "dot":
        return kernels.dot(A, B, variant, "2f", ex, cnt)
    if kind == "mv":
        return kernels.mv(A, B, variant, "2f", ex, cnt)
    if kind == "mm":
        return kernels.mm(A, B, variant, "2f", ex, cnt)
    if kind == "reduce":
        return kernels.reduce_rows(A, variant, ex, cnt)
    raise KeyError(kind)


def _ranks(sk):
    return {"dot": ["K"], "mv": ["M", "K"], "mm": ["M", "N", "K"], "reduce": ["M", "K"]}[sk["kind"]]


def _register(sk):
    regs = []
    for r in _ranks(sk):
        tys = {"none": [], "iter": ["iter"], "all": TYPES[r]}[sk["traces"]]
        for ty in tys:
            Metrics.trace(r, type_=ty, consumable=True)
            regs.append((r, ty))
    return regs


def _session(sk, A, B):
    Metrics.beginCollect()
    regs = _register(sk)
    cnt = kernels.Counter()
    out, z, cnt = _run(sk, A, B, cnt)
    traces = [(r, ty, Metrics.consumeTrace(r, ty)) for r, ty in regs]
    dump = copy.deepcopy(Metrics.dump())
    Metrics.endCollect()
    return out, z, cnt, traces, dump


def _nest(dims, xs, pos=0):
    if len(dims) == 1:
        return [xs[pos + i] for i in range(dims[0])], pos + dims[0]
    out = []
    for _ in range(dims[0]):
        n, pos = _nest(dims[1:], xs, pos)
        out.append(n)
    return out, pos


def transparent(sk, *xs):
    reset_metrics()
    A, _ = _nest(sk["adims"], xs)
    B = sk["B"]
    out0, z0, c0 = _run(sk, A, B, kernels.Counter())
    if Metrics.isCollecting():
        return fail("collection switched itself on")
    out1, z1, c1, traces, dump = _session(sk, A, B)
    if out0 != out1:
        return fail("kernel output differs with collection on")
    r0 = z0.getRoot() if isinstance(z0, Tensor) else None
    r1 = z1.getRoot() if isinstance(z1, Tensor) else None
    if r0 is not None and raw(r0) != raw(r1):
        return fail("raw output tree differs with collection on")
    comp = dump.get("Compute", {})
    if comp.get("payload_mul", 0) != c1.mul:
        return fail("multiply count %r, kernel executed %r" % (comp.get("payload_mul", 0), c1.mul))
    if comp.get("payload_update", 0) != c1.update:
        return fail("update count %r, kernel executed %r" % (comp.get("payload_update", 0), c1.update))
    if comp.get("payload_add", 0) != c1.add:
        return fail("add count %r, kernel executed %r" % (comp.get("payload_add", 0), c1.add))
    if "Compute" in dump:
        from fibertree.model.compute import Compute
        if (Compute.numOps(dump, "mul"), Compute.numOps(dump, "add"), Compute.numOps(dump, "update")) != (c1.mul, c1.add, c1.update):
            return fail("Compute.numOps reports other counts than the kernel executed")
    for r, ty, rows in traces:
        if ty == "iter":
            n = len(rows) - 1 if rows else 0
            if n != c1.bodies.get(r, 0):
                return fail("iter trace of rank %s has %d rows, %d loop bodies were executed" % (r, n, c1.bodies.get(r, 0)))
    return True


def isolated(sk, *xs):
    reset_metrics()
    A, _ = _nest(sk["adims"], xs)
    B = sk["B"]
    _, _, _, t_cold, d_cold = _session(sk, A, B)
    # ---- an earlier, unrelated or interfering session
    prev = sk["prev"]
    if prev == "other":
        Metrics.beginCollect()
        Metrics.trace("X", type_="iter", consumable=True)
        Metrics.trace("K", type_="intersect_0", consumable=True)
        Metrics.matchRanks("X", "K")
        p = Payload(3) * Payload(4)
        p += 2
        f = Fiber([0, 2], [1, 1])
        f.getRankAttrs().setId("X")
        for _ in f:
            pass
        Metrics.consumeTrace("X", "iter")
        Metrics.consumeTrace("K", "intersect_0")
        Metrics.endCollect()
    elif prev == "same":
        Metrics.beginCollect()
        for r in _ranks(sk):
            for ty in TYPES[r]:
                Metrics.trace(r, type_=ty, consumable=True)
        _run(sk, [[1, 1, 1], [1, 1, 1]] if sk["kind"] in ("mv", "reduce") else ([1, 1, 1] if sk["kind"] == "dot" else [[1, 1], [1, 1]]), B, kernels.Counter())
        for r in _ranks(sk):
            for ty in TYPES[r]:
                Metrics.consumeTrace(r, ty)
        Metrics.endCollect()
    elif prev == "counts":
        Metrics.beginCollect()
        for _ in range(3):
            q = Payload(2) * 5
            q += 1
        Metrics.incCount("Compute", "payload_mul", 7)
        Metrics.endCollect()
    _, _, _, t_new, d_new = _session(sk, A, B)
    if d_new != d_cold:
        return fail("counts after an earlier session differ from a cold run: %r vs %r" % (d_new, d_cold))
    if t_new != t_cold:
        return fail("traces after an earlier session differ from a cold run")
    return True


def numiters(sk):
    """Compute.numIters on real trace files equals the number of loop bodies executed (also for a rank whose loop is never entered)"""
    import os, shutil, tempfile
    from fibertree.model.compute import Compute
    A, B = sk["A"], sk["B"]
    d = os.path.join(tempfile.gettempdir(), "fvsym-c15-%d" % os.getpid())
    os.makedirs(d, exist_ok=True)
    try:
        reset_metrics()
        a = kernels.mk_tensor(["M", "K"], A, sk.get("explicit", False))
        b = kernels.mk_tensor(["K"], B, False)
        z = Tensor(rank_ids=["M"], shape=[len(A)])
        Metrics.beginCollect(os.path.join(d, "t"))
        Metrics.trace("M")
        Metrics.trace("K")
        nm = nk = 0
        for m, (z_ref, a_k) in z.getRoot() << a.getRoot():
            nm += 1
            for k, (a_val, b_val) in a_k & b.getRoot():
                nk += 1
                z_ref += a_val * b_val
        Metrics.endCollect()
        gm = Compute.numIters(os.path.join(d, "t-M-iter.csv"))
        gk = Compute.numIters(os.path.join(d, "t-K-iter.csv"))
        if (gm, gk) != (nm, nk):
            return fail("numIters reports M=%r K=%r, loop bodies executed M=%r K=%r" % (gm, gk, nm, nk))
        return True
    finally:
        shutil.rmtree(d, ignore_errors=True)


def obligations(tier):
    q = tier == "quick"
    obs = []
    cases = [("dot", "K", [3], [2, 0, 3]), ("mv", "MK", [2, 3], [2, 0, 3]), ("mv", "KM", [2, 3], [2, 0, 3]), ("reduce", "row", [2, 3], []),
             ("mv", "MK-ref", [2, 3], [2, 0, 3]), ("mv", "MK-dense", [2, 2], [2, 0]),
             ("mm", "MNK", [2, 2], [[2, 0], [0, 3]])]
    if not q:
        cases += [("dot", "t2", [3], [2, 3, 3]), ("mv", "MK1K0/2", [2, 3], [2, 0, 3]), ("mv", "MK", [3, 3], [2, 0, 3]), ("mm", "MKN", [2, 2], [[2, 0], [0, 3]]),
                  ("reduce", "col", [2, 3], [])]
    for kind, variant, adims, B in cases:
        for traces in ("none", "iter", "all"):
            if kind == "dot" and variant != "K" or variant.startswith("MK1K0"):
                if traces != "none":
                    continue       # tiled dataflows rename the ranks (K.1/K.0): only the counters are checked
            for explicit in ((False, True) if (not q or (kind in ("reduce", "mv") and variant in ("row", "MK") and traces != "none")) else (False,)):
                if explicit and ("/" in variant or variant == "t2"):
                    continue       # tiling an operand that holds all-default sub-fibers is the region of known finding F16 (C02/C08/C09), not C15's subject
                obs.append(Ob("transparent/%s/%s/%s%s" % (kind, variant, traces, "/e" if explicit else ""), "transparent",
                              dict(kind=kind, variant=variant, adims=adims, B=B, traces=traces, explicit=explicit), names("v", box_size(adims)), []))
    for i, (A, B) in enumerate([([[1, 0, 2], [0, 3, 4]], [5, 6, 0]), ([[0, 0, 0], [0, 0, 0]], [1, 1, 1]), ([[1, 1, 1], [0, 0, 0]], [0, 0, 0]), ([[0, 0, 1], [1, 0, 0]], [1, 0, 1])]):
        obs.append(Ob("numiters/%d" % i, "numiters", dict(A=A, B=B), [], [], concrete=True))
        obs.append(Ob("numiters/%d/explicit" % i, "numiters", dict(A=A, B=B, explicit=True), [], [], concrete=True))
    for kind, variant, adims, B in [("mv", "MK", [2, 3], [2, 0, 3]), ("dot", "K", [3], [2, 0, 3])] + ([] if q else [("mm", "MNK", [2, 2], [[2, 0], [0, 3]])]):
        for prev in ("other", "same", "counts"):
            for traces in ("all", "iter"):
                obs.append(Ob("isolated/%s/%s/%s/%s" % (kind, variant, prev, traces), "isolated",
                              dict(kind=kind, variant=variant, adims=adims, B=B, traces=traces, prev=prev), names("v", box_size(adims)), []))
    return obs
