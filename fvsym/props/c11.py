"""C11 — arithmetic on boxes and on fibers agrees with arithmetic on the values."""
import operator

from fvsym.engine import Ob
from fvsym.rt import *  # noqa

BOUNDS = {
    "quick": "every operator the Payload docstring lists (+ - * / // << & |, six comparisons, += -= *= /= and <<=) x operand kinds box-box, box-scalar, "
             "scalar-box, element-element, element-scalar, scalar-element with two symbolic integers (right operand of << in 0..3, of / and // non-zero, "
             "& and | on 0..15); fiber + and * on 0..2 x 0..2 stored elements, fiber-scalar over a shape <= 3, each in-place form against its value-returning twin; fiber + boxed scalar (no box handed out twice), scalar addition before and after a shapeless fiber grows",
    "thorough": "fiber-fiber up to 3x3, shape <= 4",
}
OUTSIDE = "float operands (A1) and the value of true division (/ and /= run on concrete operands only: dispatch and box identity, no quantified claim); operators on boxes holding tuples or strings"
ASSUMPTIONS = ["A1 integers only"]

BIN = {"add": operator.add, "sub": operator.sub, "mul": operator.mul, "truediv": operator.truediv, "floordiv": operator.floordiv,
       "lshift": operator.lshift, "and": operator.and_, "or": operator.or_,
       "eq": operator.eq, "ne": operator.ne, "lt": operator.lt, "le": operator.le, "gt": operator.gt, "ge": operator.ge}
INP = {"iadd": (operator.iadd, operator.add), "isub": (operator.isub, operator.sub), "imul": (operator.imul, operator.mul),
       "itruediv": (operator.itruediv, operator.truediv)}


def _wrap(kind, v, c=7):
    if kind == "b":
        return Payload(v)
    if kind == "c":
        return CoordPayload(c, Payload(v))
    return v


def _unwrap(x):
    if isinstance(x, CoordPayload):
        x = x.payload
    return pv(x)


def box_bin(sk, a, b=None):
    op, kinds = sk["op"], sk["kinds"]
    if b is None:
        # true division is floating point: outside the solver's reach (CrossHair could not confirm even |a| <= 4),
        # so / and /= are exercised on concrete operands only (operator dispatch, box identity) and no quantified claim is made
        a, b = sk["a"], sk["b"]
    x, y = _wrap(kinds[0], a), _wrap(kinds[1], b, 9)
    want = BIN[op](a, b)
    got = BIN[op](x, y)
    if op in ("eq", "ne", "lt", "le", "gt", "ge"):
        if bool(got) != bool(want):
            return fail("comparison differs")
    else:
        if _unwrap(got) != want:
            return fail("result differs from the operator on the values")
    # operands unchanged
    if _unwrap(x) != a or _unwrap(y) != b:
        return fail("a value-returning operator changed an operand")
    return True


def box_inplace(sk, a, b=None):
    op, kinds = sk["op"], sk["kinds"]
    if b is None:
        a, b = sk["a"], sk["b"]
    x, y = _wrap(kinds[0], a), _wrap(kinds[1], b, 9)
    box = x.payload if isinstance(x, CoordPayload) else x
    if op == "ilshift":
        r = operator.ilshift(x, y)
        want = b
    else:
        r = INP[op][0](x, y)
        want = INP[op][1](a, b)
    if r is not x:
        return fail("in-place operator did not return the same object")
    if isinstance(x, CoordPayload) and x.payload is not box:
        return fail("in-place operator on an element replaced its box")
    if pv(box) != want:
        return fail("in-place result differs")
    if kinds[1] != "s" and _unwrap(y) != b:
        return fail("right operand changed")
    return True


def _dense(f, shape):
    out = []
    for c in range(shape):
        v = 0
        for fc, fp in zip(f.coords, f.payloads):
            if fc == c:
                v = pv(fp)
        out.append(v)
    return out


def fiber_ff(sk, *xs):
    """f + g = elementwise sum over the union, f * g = product over the intersection; in-place forms leave the same content"""
    nf, ng, op = sk["nf"], sk["ng"], sk["op"]
    fc, fv = list(xs[:nf]), list(xs[nf:2 * nf])
    gc = list(xs[2 * nf:2 * nf + ng])
    gv = list(sk["gv"]) if op == "mul" else list(xs[2 * nf + ng:2 * nf + 2 * ng])   # one factor concrete for *
    f, g = Fiber(fc, fv), Fiber(gc, gv)
    f2, g2 = Fiber(fc, fv), Fiber(gc, gv)
    sf, sg = raw(f), raw(g)
    r = (f + g) if op == "add" else (f * g)
    # reference by pairwise comparison
    want = []
    for i in range(nf):
        other = 0
        for j in range(ng):
            if gc[j] == fc[i]:
                other = gv[j]
        v = fv[i] + other if op == "add" else fv[i] * other
        if v != 0:
            want.append(((fc[i],), v))
    if op == "add":
        for j in range(ng):
            seen = False
            for i in range(nf):
                if fc[i] == gc[j]:
                    seen = True
            if not seen and gv[j] != 0:
                want.append(((gc[j],), gv[j]))
    want.sort()
    if content(r) != want:
        return fail("f %s g content differs" % op)
    if wf(r, 1) < 0:
        return fail("result not well-formed")
    if raw(f) != sf or raw(g) != sg:
        return fail("operand changed")
    if op == "add":
        f2 += g2
    else:
        f2 *= g2
    if content(f2) != want:
        return fail("in-place form leaves different content than the value-returning form")
    if wf(f2, 1) < 0:
        return fail("in-place result not well-formed")
    if raw(g2) != sg:
        return fail("in-place form changed its right operand")
    return True


def fiber_fs(sk, s, *xs):
    """f + s adds over the whole shape, f * s scales the stored elements"""
    n, shape, op = sk["n"], sk["shape"], sk["op"]
    fc, fv = list(xs[:n]), list(xs[n:2 * n])
    ar = tuple(sk["active"]) if sk.get("active") else None      # an active range narrower than the shape must not change "over the whole shape"
    f = Fiber(fc, fv, shape=shape, active_range=ar)
    f2 = Fiber(fc, fv, shape=shape, active_range=ar)
    sf = raw(f)
    d0 = _dense(f, shape)
    sbox = None
    if op == "add" and sk.get("boxed"):
        # the scalar arrives as a box: the sum must not hand that box (or any one box twice) out as an element's payload
        sbox = Payload(s)
        r = f + sbox
        r2 = sbox + f
        want = [v + s for v in d0]
        objs = list(r.payloads) + list(r2.payloads) + [sbox] + list(f.payloads)
        for i in range(len(objs)):
            for j in range(i + 1, len(objs)):
                if objs[i] is objs[j]:
                    return fail("fiber + boxed scalar: one box object appears twice among the results' payloads, the scalar's box and the operand's payloads")
        r3 = f + sbox
        r3 *= 3
        if _dense(r3, shape) != [3 * v for v in want]:
            return fail("(f + box) *= 3 differs from (f + box) * 3")
        if pv(sbox) != s:
            return fail("the scalar's box changed")
    elif op == "add":
        r = f + s
        r2 = s + f
        want = [v + s for v in d0]
    else:
        sc = sk["s"]
        r = f * sc
        r2 = sc * f
        want = [v * sc for v in d0]
    if _dense(r, shape) != want or _dense(r2, shape) != want:
        return fail("fiber %s scalar differs" % op)
    if raw(f) != sf:
        return fail("operand changed")
    if op == "add":
        f2 += (Payload(s) if sk.get("boxed") else s)
    else:
        f2 *= sk["s"]
    if _dense(f2, shape) != want:
        return fail("in-place scalar form differs")
    return wf(r, 1) >= 0 and wf(f2, 1) >= 0


def fiber_grow(sk, s, w, *xs):
    """a fiber without a declared shape: scalar addition covers its *current* extent, also after the fiber grew between two additions"""
    n, far = sk["n"], sk["far"]
    fc, fv = list(xs[:n]), list(xs[n:2 * n])
    f = Fiber(fc, fv)
    r1 = f + s
    ext1 = (fc[-1] + 1) if n else 0
    if _dense(r1, far + 1)[:ext1] != [v + s for v in _dense(f, far + 1)[:ext1]]:
        return fail("f + s before growing")
    f += Fiber([far], [w])
    d1 = _dense(f, far + 1)
    ext2 = far + 1 if w != 0 or True else ext1
    r2 = f + s
    want = [v + s for v in d1]
    if _dense(r2, far + 1) != want:
        return fail("after the fiber grew to coordinate %d, f + s = %r, expected %r over the whole current shape" % (far, _dense(r2, far + 1), want))
    f += s
    if _dense(f, far + 1) != want:
        return fail("f += s after growing differs from f + s")
    return True


def obligations(tier):
    q = tier == "quick"
    obs = []
    kinds = ["bb", "bs", "sb", "cc", "cs", "sc", "cb", "bc"]
    for op in BIN:
        for k in kinds:
            pre = []
            if op in ("truediv", "floordiv"):
                pre = ["b != 0"]
            if op == "lshift":
                pre = ["0 <= b <= 3", "0 <= a"]
            if op in ("and", "or"):
                pre = ["0 <= a <= 15", "0 <= b <= 15"]
            if op == "truediv":
                for aa, bb in ((6, 2), (7, -3), (0, 5)):
                    obs.append(Ob("bin/%s/%s/%d_%d" % (op, k, aa, bb), "box_bin", dict(op=op, kinds=k, a=aa, b=bb), ["unused"], [], nontrivial=False))
                continue
            obs.append(Ob("bin/%s/%s" % (op, k), "box_bin", dict(op=op, kinds=k), ["a", "b"], pre))
    for op in list(INP) + ["ilshift"]:
        for k in ("bb", "bs", "cc", "cs", "cb", "bc"):
            if op == "itruediv":
                for aa, bb in ((6, 2), (7, -3)):
                    obs.append(Ob("inplace/%s/%s/%d_%d" % (op, k, aa, bb), "box_inplace", dict(op=op, kinds=k, a=aa, b=bb), ["unused"], [], nontrivial=False))
                continue
            pre = []
            obs.append(Ob("inplace/%s/%s" % (op, k), "box_inplace", dict(op=op, kinds=k), ["a", "b"], pre))
    for n in (1, 2):
        fn = names("f", n)
        obs.append(Ob("fiber/adds-grow/%d" % n, "fiber_grow", dict(n=n, far=4), ["s", "w"] + fn + names("u", n), chain_pre(fn) + bound_pre(fn, 0, 3) + ["w != 0"]))
    N = 2 if q else 3
    for nf in range(N + 1):
        for ng in range(N + 1):
            ps = names("f", nf) + names("u", nf) + names("g", ng) + names("w", ng)
            pre = chain_pre(names("f", nf)) + chain_pre(names("g", ng))
            obs.append(Ob("fiber/add/%dx%d" % (nf, ng), "fiber_ff", dict(nf=nf, ng=ng, op="add"), ps, pre))
            for gv in ([[2, 3, 0][:ng], [0, 5, 1][:ng]] if ng else [[]]):
                ps2 = names("f", nf) + names("u", nf) + names("g", ng)
                obs.append(Ob("fiber/mul/%dx%d/%s" % (nf, ng, "".join(map(str, gv))), "fiber_ff", dict(nf=nf, ng=ng, op="mul", gv=gv), ps2, pre))
    for n in (0, 1, 2):
        for shape in ((3,) if q else (3, 4)):
            ps = ["s"] + names("f", n) + names("u", n)
            pre = chain_pre(names("f", n)) + bound_pre(names("f", n), 0, shape)
            obs.append(Ob("fiber/adds/%d/%d" % (n, shape), "fiber_fs", dict(n=n, shape=shape, op="add"), ps, pre))
            obs.append(Ob("fiber/adds/%d/%d/active12" % (n, shape), "fiber_fs", dict(n=n, shape=shape, op="add", active=[1, 2]), ps, pre))
            obs.append(Ob("fiber/adds/%d/%d/boxed" % (n, shape), "fiber_fs", dict(n=n, shape=shape, op="add", boxed=True), ps, pre))
            for sc in (0, 3):
                obs.append(Ob("fiber/muls/%d/%d/%d" % (n, shape, sc), "fiber_fs", dict(n=n, shape=shape, op="mul", s=sc), ps, pre))
    return obs
