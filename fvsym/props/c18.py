"""C18 — format footprints add up from the tree exactly."""
from fvsym.engine import Ob
from fvsym.rt import *  # noqa
from fibertree.model.format import Format

BOUNDS = {
    "quick": "tensors of skeleton 2, [1,1], [2,1], [1,0], [[1]] inside concrete shapes (3 per rank), coordinates/values symbolic; per-rank format in {C,U}^d "
             "enumerated; rhbits/fhbits/cbits/pbits per rank and root hbits/pbits symbolic >= 0 (unbounded); missing-field patterns (none, all, bits only); "
             "getFiber at root and at a symbolic stored prefix, getRank, getRoot, getTensor, getSubTree at () / prefix / full point; purity of queries; per-rank accessors (bits, format, layout, getElem), the same Format object queried again after the tensor changed",
    "thorough": "adds [2,2], [0,1], [[1,1]], [[1],[1]] and symbolic shape with concrete widths",
}
OUTSIDE = "'interleaved' layout (accepted, has no effect on footprints in this code); non-integer widths"
ASSUMPTIONS = ["A1 integers only", "shapes are authoritative (given to the constructor)"]

FIELDS = ("rhbits", "fhbits", "cbits", "pbits")


def footprint(sk, *xs):
    tree, d, fmts, missing, S = sk["tree"], sk["depth"], sk["fmts"], sk["missing"], sk["S"]
    f, pos, _ = build_tree(tree, xs)
    ids = rank_ids_for(d)
    t = Tensor.fromFiber(ids, f, shape=[S] * d)
    bits = {}
    spec = {}
    for i, r in enumerate(ids):
        spec[r] = {}
        for k in FIELDS:
            v = xs[pos]; pos += 1
            if missing == "all" or (missing == "bits" and k in ("cbits", "fhbits")):
                v = 0
            else:
                spec[r][k] = v
            bits[(i, k)] = v
        if missing != "all" or fmts[i] != "C":
            spec[r]["format"] = fmts[i]
        if missing == "none":
            spec[r]["layout"] = "contiguous" if i % 2 == 0 else "interleaved"
    rh, rp = xs[pos], xs[pos + 1]; pos += 2
    if missing == "all":
        rh = rp = 0
    else:
        spec["root"] = {"hbits": rh, "pbits": rp}
    q = list(xs[pos:pos + d])      # a symbolic point used for prefix queries
    snap = raw(t.getRoot())
    rs = rank_sizes(t)
    fm = Format(t, spec)

    def ffp(level, fiber):
        n = len(fiber.coords) if fmts[level] == "C" else S
        return bits[(level, "fhbits")] + (bits[(level, "cbits")] + bits[(level, "pbits")]) * n

    # the per-rank accessors report the specification with missing fields at their defaults (0 bits, "C", "contiguous")
    for i, r in enumerate(ids):
        if (fm.getCBits(r), fm.getPBits(r), fm.getFHBits(r), fm.getRHBits(r)) != (bits[(i, "cbits")], bits[(i, "pbits")], bits[(i, "fhbits")], bits[(i, "rhbits")]):
            return fail("per-rank bit widths of rank %s" % r)
        if fm.getFormat(r) != fmts[i]:
            return fail("getFormat(%s) is %r, specified (or defaulted) %r" % (r, fm.getFormat(r), fmts[i]))
        if fm.getLayout(r) != (("contiguous" if i % 2 == 0 else "interleaved") if missing == "none" else "contiguous"):
            return fail("getLayout(%s)" % r)
        if fm.getElem(r, "elem") != bits[(i, "cbits")] + bits[(i, "pbits")] or fm.getElem(r, "coord") != bits[(i, "cbits")] or fm.getElem(r, "payload") != bits[(i, "pbits")]:
            return fail("getElem(%s)" % r)
    levels = fibers_at_depth(t.getRoot())
    want_ranks = []
    for i in range(d):
        tot = bits[(i, "rhbits")]
        for fb in (levels[i] if i < len(levels) else []):
            tot += ffp(i, fb)
        want_ranks.append(tot)
    for i, r in enumerate(ids):
        if fm.getRank(r) != want_ranks[i]:
            return fail("getRank(%s)" % r)
    if fm.getRoot() != rh + rp:
        return fail("getRoot")
    if fm.getTensor() != rh + rp + sum(want_ranks):
        return fail("getTensor")
    if fm.getFiber() != ffp(0, t.getRoot()):
        return fail("getFiber()")

    def empty_fp(level):
        n = 0 if fmts[level] == "C" else S
        tot = bits[(level, "fhbits")] + (bits[(level, "cbits")] + bits[(level, "pbits")]) * n
        if fmts[level] == "U" and level + 1 < d:
            tot += S * empty_fp(level + 1)
        return tot

    def nonempty(p):
        if isinstance(p, Fiber):
            for pp in p.payloads:
                if nonempty(pp):
                    return True
            return False
        return pv(p) != 0

    def sub(level, fiber):
        tot = ffp(level, fiber)
        if level + 1 >= d:
            return tot
        if fmts[level] == "C":
            for p in fiber.payloads:
                if nonempty(p):
                    tot += sub(level + 1, p)
        else:
            for c in range(S):
                child = None
                for fc, fp in zip(fiber.coords, fiber.payloads):
                    if fc == c:
                        child = fp
                tot += sub(level + 1, child) if child is not None else empty_fp(level + 1)
        return tot

    if fm.getSubTree() != sub(0, t.getRoot()):
        return fail("getSubTree()")
    if d >= 2:
        # prefix query at a stored first coordinate
        child = None
        for fc, fp in zip(t.getRoot().coords, t.getRoot().payloads):
            if fc == q[0]:
                child = fp
        if child is not None:
            if fm.getSubTree(q[0]) != sub(1, child):
                return fail("getSubTree(prefix)")
            if fm.getFiber(q[0]) != ffp(1, child):
                return fail("getFiber(prefix)")
    if fm.getSubTree(*q) != bits[(d - 1, "cbits")] + bits[(d - 1, "pbits")]:
        return fail("getSubTree(full point)")
    if raw(t.getRoot()) != snap or rank_sizes(t) != rs:
        return fail("a footprint query changed the tree or the rank lists")
    if sk.get("again"):
        # the same Format object after the tensor changed: the answers describe the tensor as it is now, nothing is remembered
        r_ = t.getPayloadRef(*q)
        r_ <<= 1
        levels = fibers_at_depth(t.getRoot())
        tot_all = rh + rp
        for i, r in enumerate(ids):
            tot = bits[(i, "rhbits")]
            for fb in (levels[i] if i < len(levels) else []):
                tot += ffp(i, fb)
            tot_all += tot
            if fm.getRank(r) != tot:
                return fail("getRank(%s) after the tensor changed does not describe the current tree" % r)
        if fm.getTensor() != tot_all:
            return fail("getTensor after the tensor changed")
        if fm.getFiber() != ffp(0, t.getRoot()) or fm.getSubTree() != sub(0, t.getRoot()):
            return fail("getFiber / getSubTree after the tensor changed")
    return True


def obligations(tier):
    import itertools
    q = tier == "quick"
    obs = []
    S = 3
    trees = [2, [1, 1], [2, 1], [1, 0], [[1]]] if q else [2, 1, 0, [1, 1], [2, 1], [1, 0], [2, 2], [0, 1], [], [[1]], [[1, 1]], [[1], [1]]]
    for tree in trees:
        d = tree_depth(tree) if tree != [] else 2
        ps = names("x", tree_params(tree))
        pre, _, cn = tree_pre(tree, ps)
        pre = pre + bound_pre(cn, 0, S)
        bn = names("w", 4 * d) + ["rh", "rp"]
        qn = names("q", d)
        for fmts in itertools.product("CU", repeat=d):
            for missing in (("none", "all", "bits") if (q and d <= 2) or not q else ("none",)):
                obs.append(Ob("fp/%s/%s/%s" % (str(tree).replace(" ", ""), "".join(fmts), missing), "footprint",
                              dict(tree=tree, depth=d, fmts=list(fmts), missing=missing, S=S), ps + bn + qn,
                              pre + bound_pre(bn, 0, None) + bound_pre(qn, 0, S)))
    for tree, fmts in (([1, 1], "CC"), ([1, 0], "UC"), (2, "C")):
        d = tree_depth(tree)
        ps = names("x", tree_params(tree))
        pre, _, cn = tree_pre(tree, ps)
        bn = names("w", 4 * d) + ["rh", "rp"]
        qn = names("q", d)
        obs.append(Ob("fp-again/%s/%s" % (str(tree).replace(" ", ""), fmts), "footprint", dict(tree=tree, depth=d, fmts=list(fmts), missing="none", S=S, again=True),
                      ps + bn + qn, pre + bound_pre(cn, 0, S) + bound_pre(bn, 0, None) + bound_pre(qn, 0, S)))
    return obs
