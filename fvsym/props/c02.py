"""C02 — a tensor's rank bookkeeping always mirrors its fibertree."""
from fvsym.engine import Ob
from fvsym.rt import *  # noqa
from fvsym import ops, xforms
from fvsym.props import c01
from fvsym.props.c01 import history  # noqa  (harness shared with C01, mirror assertion switched on)

BOUNDS = {
    "quick": "C01's inductive steps and 2-step histories on tensor-owned skeletons 2, [1,1], [2,1], [1,0], [] with mirror() asserted after "
             "every step; constructors (empty+insertions, fromFiber / setRoot of a free or an owned root, fromUncompressed 2x2, makePopulated, deepcopy), Tensor.clearStats reach and every transform on [2,1]/[1,1]/[1,0] "
             "(swizzle on a 2x2 box with symbolic values); read-only co-iterating traversals (|, ==, uncompress, Format.getRank); makePopulated, Tensor.clearStats reach, fromFiber / setRoot of a root that already belongs to a tensor (concrete box coordinates, symbolic values), clearing a non-root fiber whose sub-fibers have equal-content siblings",
    "thorough": "adds 3-fibers, [2,2], [0,1], depth-3 skeleton [[1,1]] for transforms, 2x2x2 swizzles, split step/halo variants",
}
OUTSIDE = "real pickle consistency of deepcopy (S1; replays use pickle); YAML text parsing; fromRandom (C13 covers it through S3)"
ASSUMPTIONS = c01.ASSUMPTIONS


def xform_mirror(sk, *xs):
    """result and operand of a transform both satisfy mirror() and wf()"""
    tree, name, opt = sk["tree"], sk["xf"], sk["opt"]
    if sk.get("box"):
        f, pos = build_box(sk["box"], xs)
        d = len(sk["box"])
    else:
        f, pos, _ = build_tree(tree, xs)
        d = sk["depth"]
    t = Tensor.fromFiber(rank_ids_for(d), f)
    n = xforms.xf_nargs(name, opt)
    try:
        r = xforms.apply_xf(name, t, opt, list(xs[pos:pos + n]))
    except (TypeError, AssertionError, ValueError, IndexError):
        # whether the transform succeeds is C09's business; C02 speaks about the tensors that exist afterwards
        return mirror(t)
    if not mirror(t):
        return fail("operand: " + str(LAST_FAIL))
    if not mirror(r):
        return False
    if wf(r.getRoot()) < 0 or wf(t.getRoot(), d) < 0:
        return fail("not well-formed")
    return True


def readonly_mirror(sk, *xs):
    """read-only traversals that co-iterate interior ranks leave rank lists exactly as they were"""
    tree, what = sk["tree"], sk["what"]
    f, pos, _ = build_tree(tree, xs)
    g, pos, _ = build_tree(sk["tree2"], xs, pos)
    d = sk["depth"]
    t = Tensor.fromFiber(rank_ids_for(d), f)
    u = Tensor.fromFiber(rank_ids_for(d), g)
    before = [list(r.fibers) for r in t.ranks] + [list(r.fibers) for r in u.ranks]
    if what == "eq":
        t == u
    elif what == "or":
        for c, p in t.getRoot() | u.getRoot():
            pass
    elif what == "fiber_eq":
        t.getRoot() == u.getRoot()
    elif what == "countValues":
        t.countValues()
    elif what == "getPayload":
        t.getPayload(xs[pos], xs[pos + 1])
    after = [list(r.fibers) for r in t.ranks] + [list(r.fibers) for r in u.ranks]
    for i in range(len(before)):
        if not same_objects(before[i], after[i]):
            return fail("rank list %d changed during a read-only %s" % (i, what))
    return mirror(t) and mirror(u)


def ctor(sk, *xs):
    kind = sk["kind"]
    if kind == "empty_insert":
        t = Tensor(rank_ids=["M", "K"])
        for i in range(sk["n"]):
            r = t.getPayloadRef(xs[3 * i], xs[3 * i + 1])
            r <<= xs[3 * i + 2]
            if not mirror(t):
                return False
        return wf(t.getRoot(), 2) >= 0
    if kind == "fromUncompressed":
        dims = sk["dims"]
        if len(dims) == 2:
            nest = [[xs[i * dims[1] + j] for j in range(dims[1])] for i in range(dims[0])]
        else:
            nest = [xs[i] for i in range(dims[0])]
        t = Tensor.fromUncompressed(rank_ids_for(len(dims)), nest)
        return mirror(t) and wf(t.getRoot()) >= 0
    if kind == "fromFiber_owned":
        # a root that already belongs to a tensor is copied: both tensors stay consistent
        # (Fiber.copy keys a dict by coordinate, which would realise symbolic coordinates: concrete box coordinates, symbolic values;
        #  a zero value is an explicit default and an all-zero row an all-default sub-fiber)
        f, pos = build_box(sk["box"], xs)
        ids = rank_ids_for(len(sk["box"]))
        t = Tensor.fromFiber(ids, f)
        c0 = content(t.getRoot())
        u = Tensor.fromFiber(ids, t.getRoot()) if not sk.get("setroot") else Tensor(rank_ids=ids)
        if sk.get("setroot"):
            u.setRoot(t.getRoot())
        if u.getRoot() is t.getRoot():
            return fail("owned root not copied")
        if content(u.getRoot()) != c0 or content(t.getRoot()) != c0:
            return fail("content changed")
        if not mirror(t):
            return fail("source tensor after its root was handed to another tensor: " + str(LAST_FAIL))
        return mirror(u)
    if kind == "makePopulated":
        dims = sk["dims"]
        v = xs[0]
        t = Tensor.makePopulated(rank_ids_for(len(dims)), dims, initial=v)
        want = []
        if v != 0:
            for i in range(dims[0]):
                for j in range(dims[1]):
                    want.append(((i, j), v))
        if content(t.getRoot()) != want:
            return fail("makePopulated content")
        if not t.isMutable() or t.getShape() != dims:
            return fail("makePopulated shape / mutability")
        r = t.getPayloadRef(xs[1], xs[2])
        r <<= xs[3]
        return mirror(t) and wf(t.getRoot()) >= 0
    if kind == "clearStats":
        # statistics clearing walks the rank lists: it must reach exactly the live fibers, also ones created after construction
        f, pos, _ = build_tree(sk["tree"], xs)
        t = Tensor.fromFiber(["M", "K"], f)
        r = t.getPayloadRef(xs[pos], xs[pos + 1])
        r <<= xs[pos + 2]
        live = [g for lvl in fibers_at_depth(t.getRoot()) for g in lvl]
        for g in live:
            g.setSavedPos(0, distance=2)
        t.clearStats()
        for g in live:
            if g.getSavedPosStats(clear=False) != (0, 0):
                return fail("Tensor.clearStats missed a live fiber")
        return mirror(t)
    if kind == "setRoot_twice":
        f, pos, _ = build_tree(sk["tree"], xs)
        g, pos, _ = build_tree(sk["tree"], xs, pos)
        t = Tensor.fromFiber(["M", "K"], f)
        t.setRoot(g)
        return mirror(t)
    raise KeyError(kind)


def _mk_xf(tree, name, opt, box=None, budget=None):
    if box:
        ps = names("v", box_size(box))
        pre = []
        d = len(box)
    else:
        ps = names("x", tree_params(tree))
        pre, _, cn = tree_pre(tree, ps)
        pre = pre + bound_pre(cn, 0, None)   # tensor coordinates live in [0, shape)
        d = tree_depth(tree)
    an = names("p", xforms.xf_nargs(name, opt))
    pre = pre + xforms.xf_pre(name, opt, an)
    label = name + "(" + ",".join("%s=%s" % kv for kv in sorted(opt.items())) + ")"
    ob = Ob("xf/%s/%s" % (str(box or tree).replace(" ", ""), label.replace(" ", "")), "xform_mirror",
            dict(tree=tree, xf=name, opt=opt, depth=d, box=box), ps + an, pre, budget=budget)
    if not box and opt.get("depth", 0) >= 1 and not name.startswith("updateCoords"):
        ob.tags["alldefault_sub"] = alldefault_sub_expr(tree, ps)
    return ob


def xf_list(tier):
    q = tier == "quick"
    l = [("splitUniform", {"step": 2}), ("splitUniform", {"step": 2, "depth": 1}), ("splitEqual", {"size": 1}),
         ("splitEqual", {"size": 2, "depth": 1}), ("splitNonUniform", {"k": 2}), ("splitUnEqual", {"sizes": [1, 1]}),
         ("swapRanks", {}), ("flattenRanks", {}), ("flatten_unflatten", {}), ("mergeRanks", {}),
         ("updateCoords_inc", {}), ("updateCoords_dec", {"depth": 1}), ("updatePayloads", {"depth": 1}), ("deepcopy", {})]
    if not q:
        l += [("splitUniform", {"step": 3, "pre": 1, "post": 1}), ("splitUniform", {"step": 2, "rel": True}),
              ("splitUnEqual", {"sizes": [1, 2], "depth": 1}), ("truediv", {"parts": 2}), ("floordiv", {"parts": 2}),
              ("flattenRanks", {"style": "pair"}), ("mergeRanks", {"style": "absolute"}), ("updateCoords_dec", {})]
    return l


def obligations(tier):
    q = tier == "quick"
    obs = c01.obligations(tier, mirror_=True)
    trees = [[2, 1], [1, 1], [1, 0]] if q else [[2, 1], [1, 1], [1, 0], [0, 1], [2, 2], []]
    for tree in trees:
        for name, opt in xf_list(tier):
            obs.append(_mk_xf(tree, name, opt))
    obs.append(_mk_xf(None, "swizzleRanks", {"perm": [1, 0]}, box=[2, 2]))
    if not q:
        obs.append(_mk_xf(None, "swizzleRanks", {"perm": [2, 0, 1]}, box=[2, 2, 2]))
        obs.append(_mk_xf(None, "swizzleRanks", {"perm": [1, 2, 0]}, box=[2, 2, 2]))
    # read-only traversals
    for what in ("eq", "or", "fiber_eq", "countValues", "getPayload"):
        for t1, t2 in ([([1, 1], [1]), ([1], [1, 0]), ([], [1])] if q else [([1, 1], [1]), ([1], [1, 0]), ([], [1]), ([2, 1], [1, 1]), ([1, 1], [])]):
            ps = names("x", tree_params(t1)) + names("y", tree_params(t2))
            pre = tree_pre(t1, names("x", tree_params(t1)))[0] + tree_pre(t2, names("y", tree_params(t2)))[0]
            extra = ["q0", "q1"] if what == "getPayload" else []
            obs.append(Ob("ro/%s/%s-%s" % (what, str(t1).replace(" ", ""), str(t2).replace(" ", "")), "readonly_mirror",
                          dict(tree=t1, tree2=t2, what=what, depth=2), ps + extra, pre))
    # constructors
    obs.append(Ob("ctor/empty_insert/2", "ctor", dict(kind="empty_insert", n=2), names("i", 6), []))
    if not q:
        obs.append(Ob("ctor/empty_insert/3", "ctor", dict(kind="empty_insert", n=3), names("i", 9), []))
    obs.append(Ob("ctor/fromUncompressed/2x2", "ctor", dict(kind="fromUncompressed", dims=[2, 2]), names("v", 4), []))
    obs.append(Ob("ctor/fromUncompressed/3", "ctor", dict(kind="fromUncompressed", dims=[3]), names("v", 3), []))
    obs.append(Ob("ctor/makePopulated/2x2", "ctor", dict(kind="makePopulated", dims=[2, 2]), ["v", "i0", "i1", "w"], ["0 <= i0 < 2", "0 <= i1 < 2"]))
    for tree in ([1, 1], [1, 0], []):
        ps = names("x", tree_params(tree))
        obs.append(Ob("ctor/clearStats/%s" % str(tree).replace(" ", ""), "ctor", dict(kind="clearStats", tree=tree), ps + ["i0", "i1", "w"], tree_pre(tree, ps)[0]))
    for box in ([2, 2], [1, 2, 2]):
        for sr in (False, True):
            obs.append(Ob("ctor/%s_owned/box%s" % ("setRoot" if sr else "fromFiber", "x".join(map(str, box))), "ctor", dict(kind="fromFiber_owned", box=box, setroot=sr),
                          names("v", box_size(box)), []))
    for tree in ([1, 1], [1, 0]):
        ps = names("x", tree_params(tree))
        ps2 = ps + names("y", tree_params(tree))
        obs.append(Ob("ctor/setRoot_twice/%s" % str(tree).replace(" ", ""), "ctor", dict(kind="setRoot_twice", tree=tree), ps2,
                      tree_pre(tree, ps)[0] + tree_pre(tree, names("y", tree_params(tree)))[0]))
    return obs
