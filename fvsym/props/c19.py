"""C19 — intersection and merge cost models count what the hardware idiom would do."""
from fvsym.engine import Ob
from fvsym.rt import *  # noqa
from fibertree.model.intersect import TwoFingerIntersector, SkipAheadIntersector, LeaderFollowerIntersector
from fibertree.model.compute import Compute

BOUNDS = {
    "quick": "two-operand intersections a_k & b_k inside a loop over 1..2 parent fibers, each operand 0..2 stored coordinates (symbolic), consumable intersect_0/1 traces fed "
             "to the two-finger, skip-ahead and leader-follower models fiber-by-fiber and in one shot; numSwaps on 2..3 lists of 1..2 symbolic coordinates with symbolic payload "
             "values, radix in {2,3,100}, next_latency symbolic >= 0 or 'N'; an empty batch drained before the first fiber; one-shot batching across 2 (3 thorough) consecutive fibers is an ordinary obligation since F21 was repaired",
    "thorough": "operands up to 3 coordinates, 3 parent fibers for fiber-by-fiber batching, 4 lists for numSwaps, depth-1 numSwaps",
}
OUTSIDE = "more consecutive fibers than the bound; radix given as the string 'N' (the code needs a number; tests use float('inf'))"
ASSUMPTIONS = ["A1 integers only", "A3 Metrics reset in the prologue"]


def _two_finger(a, b):
    """(comparison steps until either list is exhausted, maximal same-side runs + matches)"""
    i = j = 0
    steps = 0
    runs = 0
    side = None
    while i < len(a) and j < len(b):
        steps += 1
        if a[i] == b[j]:
            runs += 1
            side = None
            i += 1; j += 1
        elif a[i] < b[j]:
            if side != 0:
                runs += 1
                side = 0
            i += 1
        else:
            if side != 1:
                runs += 1
                side = 1
            j += 1
    return steps, runs


def isect(sk, *xs):
    nas, nb, batching, model = sk["nas"], sk["nb"], sk["batching"], sk["model"]
    F = len(nas)
    pos = 0
    als = []
    for n in nas:
        als.append(list(xs[pos:pos + n])); pos += n
    bc = list(xs[pos:pos + nb])
    reset_metrics()
    a = Tensor.fromFiber(["M", "K"], Fiber(list(range(F)), [Fiber(c, [1] * len(c)) for c in als]))
    b = Tensor.fromFiber(["K"], Fiber(bc, [1] * nb))
    m = {"2f": TwoFingerIntersector, "skip": SkipAheadIntersector, "lf": LeaderFollowerIntersector}[model]()
    Metrics.beginCollect()
    Metrics.trace("K", "intersect_0", consumable=True)
    Metrics.trace("K", "intersect_1", consumable=True)
    if sk.get("predrain"):
        # the consumer drains the (still empty) traces before the first fiber is intersected: an empty batch charges nothing and
        # does not change what the following batches are charged
        if model == "lf":
            m.addTraces(Metrics.consumeTrace("K", "intersect_0"))
            Metrics.consumeTrace("K", "intersect_1")
        else:
            m.addTraces(Metrics.consumeTrace("K", "intersect_0"), Metrics.consumeTrace("K", "intersect_1"))
        if m.getNumIntersects() != 0:
            return fail("an empty batch was charged %r" % m.getNumIntersects())
    for mm, a_k in a.getRoot():
        if model == "lf":
            for _ in Fiber.intersection(a_k, b.getRoot(), style="leader-follower"):
                pass
        else:
            for _ in a_k & b.getRoot():
                pass
        if batching == "fiber":
            if model == "lf":
                m.addTraces(Metrics.consumeTrace("K", "intersect_0"))
                Metrics.consumeTrace("K", "intersect_1")
            else:
                m.addTraces(Metrics.consumeTrace("K", "intersect_0"), Metrics.consumeTrace("K", "intersect_1"))
    if batching == "oneshot":
        if model == "lf":
            m.addTraces(Metrics.consumeTrace("K", "intersect_0"))
            Metrics.consumeTrace("K", "intersect_1")
        else:
            m.addTraces(Metrics.consumeTrace("K", "intersect_0"), Metrics.consumeTrace("K", "intersect_1"))
    Metrics.endCollect()
    want = 0
    for al in als:
        if len(al) == 0:
            continue      # an empty sub-fiber is not visited by the M loop
        steps, runs = _two_finger(al, bc)
        want += {"2f": steps, "skip": runs, "lf": len(al)}[model]
    got = m.getNumIntersects()
    if got != want:
        return fail("%s model (%s batching) reports %r, an independent merge counts %r" % (model, batching, got, want))
    return True


def _merge_cost(lists, radix, lat):
    """independent re-derivation of the swap cost"""
    total = 0
    lists = [sorted(l) for l in lists]
    while len(lists) > 1:
        r = min(radix, len(lists))
        new = []
        for i in range(0, len(lists), r):
            grp = lists[i:i + r]
            merged = sorted([c for l in grp for c in l])
            if lat != "N":
                total += lat * (len(grp) + len(merged))
            else:
                # comparator tree: every insertion costs 1 + the number of current heads that sort after the new element
                heads = []          # (coord, list index), the smallest coordinate is served first
                ptr = [0] * len(grp)
                cmp_ = 0
                for li, l in enumerate(grp):
                    e = (l[0], li); ptr[li] = 1
                    cmp_ += 1 + len([h for h in heads if (-h[0], h[1]) > (-e[0], e[1])])
                    heads.append(e)
                while heads:
                    best = heads[0]
                    for h in heads:
                        if (-h[0], h[1]) > (-best[0], best[1]):
                            best = h
                    heads.remove(best)
                    li = best[1]
                    if ptr[li] < len(grp[li]):
                        e = (grp[li][ptr[li]], li); ptr[li] += 1
                        cmp_ += 1 + len([h for h in heads if (-h[0], h[1]) > (-e[0], e[1])])
                        heads.append(e)
                total += cmp_
            new.append(merged)
        lists = new
    return total


def swaps(sk, lat, *xs):
    ns, radix = sk["ns"], sk["radix"]
    pos = 0
    lists, vals = [], []
    for n in ns:
        lists.append(list(xs[pos:pos + n])); pos += n
        vals.append(list(xs[pos:pos + n])); pos += n
    latency = "N" if sk.get("latN") else lat
    t = Tensor.fromFiber(["M", "K"], Fiber(list(range(len(ns))), [Fiber(c, v) for c, v in zip(lists, vals)]))
    got = Compute.numSwaps(t, 0, radix, latency)
    want = _merge_cost(lists, radix, latency)
    if got != want:
        return fail("numSwaps reports %r, the stated cost model gives %r" % (got, want))
    # unaffected by payload values: same coordinates, all payloads 1
    t1 = Tensor.fromFiber(["M", "K"], Fiber(list(range(len(ns))), [Fiber(c, [1] * len(c)) for c in lists]))
    if Compute.numSwaps(t1, 0, radix, latency) != got:
        return fail("numSwaps depends on payload values")
    return True


def obligations(tier):
    q = tier == "quick"
    obs = []
    N = 2 if q else 3
    shapes = [[n] for n in range(N + 1)] + [[1, 1], [2, 1], [1, 2], [2, 2], [0, 1], [1, 0]]
    if not q:
        shapes += [[3, 1], [1, 3], [1, 1, 1], [2, 1, 1]]
    for nas in shapes:
        for nb in range(N + 1):
            if not q and sum(nas) + nb >= 6:
                continue        # 6+ symbolic coordinates (several thousand paths each) do not fit the thorough budget
            for model in ("2f", "skip", "lf"):
                for batching in ("fiber", "oneshot"):
                    ps, pre = [], []
                    for i, n in enumerate(nas):
                        an = names("a%d_" % i, n)
                        ps += an
                        pre += chain_pre(an)
                    bn = names("b", nb)
                    obs.append(Ob("isect/%s/%s/%s/%s" % (model, batching, "-".join(map(str, nas)), nb), "isect",
                                  dict(nas=nas, nb=nb, batching=batching, model=model), ps + bn, pre + chain_pre(bn)))
                    if nas in ([1], [1, 1]) and nb == 1:
                        obs.append(Ob("isect/%s/%s/%s/%s/predrain" % (model, batching, "-".join(map(str, nas)), nb), "isect",
                                      dict(nas=nas, nb=nb, batching=batching, model=model, predrain=True), ps + bn, pre + chain_pre(bn)))
    for ns in ([[1, 1], [2, 1], [1, 2], [2, 2], [1, 1, 1], [2, 1, 1]] if q else [[1, 1], [2, 1], [1, 2], [2, 2], [1, 1, 1], [2, 1, 1], [2, 2, 1], [1, 1, 1, 1], [3, 1]]):
        for radix in (2, 3, 100):
            for latN in (False, True):
                ps, pre = ["lat"], ["0 <= lat"]
                vs = []
                for i, n in enumerate(ns):
                    cn = names("c%d_" % i, n)
                    vn = names("v%d_" % i, n)
                    ps += cn + vn
                    pre += chain_pre(cn)
                    vs.append(vn)
                ob = Ob("swaps/%s/r%d/%s" % ("-".join(map(str, ns)), radix, "N" if latN else "lat"), "swaps", dict(ns=ns, radix=radix, latN=latN), ps, pre)
                ob.tags["alldefault_sub"] = " or ".join("(" + " and ".join("%s == 0" % v for v in vn) + ")" for vn in vs)
                obs.append(ob)
    return obs
