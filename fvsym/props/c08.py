"""C08 — splitting partitions a fiber losslessly at exactly the specified boundaries."""
from fvsym.engine import Ob
from fvsym.rt import *  # noqa

BOUNDS = {
    "quick": "1-level fibers with 0..3 stored elements, symbolic non-negative coordinates, every default/non-default value pattern enumerated, symbolic active range; "
             "splitUniform step in {1,2,3} x halos (pre,post) in {0,1}^2 (n <= 2 with halos), absolute and relative coordinates; splitNonUniform with 1..2 symbolic "
             "boundaries (+halo 1); splitEqual size in {1,2}; splitUnEqual sizes [1,1],[2,1],[1]; / and // shorthands; re-split of partitions; depth-1 splits through "
             "Tensor.split* on [2,1] and [1,0]",
    "thorough": "n <= 4 (halos up to 2 for n <= 3, with a fixed active range at n = 3), step 4, 3 boundaries, sizes [1,2],[2,2], depth-1 splits on [2,2] and depth-2 on [[1,1]]",
}
OUTSIDE = "symbolic step/halo/size (kept concrete so // and % stay linear); tuple coordinates; more stored elements than the bound"
ASSUMPTIONS = ["A1 integers only", "S1, S2 (|coord| < 2**62)", "coordinates >= 0 (they live inside a shape)"]

INF = 2 ** 63


def produced(r):
    """flatten the split result: (partition start, coordinate, value) triples + per-partition active ranges"""
    prod, acts = [], []
    if wf(r, 2) < 0:
        return None, None
    for P, lf in zip(r.coords, r.payloads):
        if not isinstance(lf, Fiber) or len(lf.coords) == 0:
            return None, None     # a partition that is listed must be a non-empty fiber
        for c, p in zip(lf.coords, lf.payloads):
            prod.append((P, c, pv(p)))
        acts.append((P, lf.getActive()))
    return prod, acts


def spec_intervals(cs, vs, A0, A1, bounds, pre, post, rel):
    """expected (P, c', v) triples for half-open intervals [bounds[i], bounds[i+1]) (last bound = INF)"""
    exp, acts = [], []
    k = len(bounds) - 1
    for i in range(k):
        lo, hi = bounds[i], bounds[i + 1]
        if not (hi > A0 and lo < A1):
            continue              # interval does not intersect the active range
        got = False
        for j in range(len(cs)):
            c = cs[j]
            if vs[j] == 0:
                continue
            if not (A0 - pre <= c < A1 + post):
                continue
            if lo - pre <= c < hi + post:
                exp.append((lo, c - lo if rel else c, vs[j]))
                got = True
        if got:
            acts.append((lo, (max(lo, A0), min(hi, A1))))
    return exp, acts


def check(r, cs, vs, A0, A1, bounds, pre, post, rel, what):
    prod, acts = produced(r)
    if prod is None:
        return fail("%s: result is not a well-formed 2-level fiber of non-empty partitions" % what)
    exp, eacts = spec_intervals(cs, vs, A0, A1, bounds, pre, post, rel)
    if prod != exp:
        return fail("%s: partitions differ from the specification: got %r expected %r" % (what, prod, exp))
    if len(acts) != len(eacts):
        return fail("%s: number of partitions" % what)
    for (p1, a1), (p2, a2) in zip(acts, eacts):
        if p1 != p2 or a1[0] != a2[0] or a1[1] != a2[1]:
            return fail("%s: partition active range differs: got %r expected %r" % (what, (p1, a1), (p2, a2)))
    return True


def _vals(pat):
    return [0 if b == 0 else 7 + i for i, b in enumerate(pat)]


def _fiber(sk, xs):
    n = sk["n"]
    cs = list(xs[:n])
    vs = _vals(sk["pat"])
    rest = list(xs[n:])
    if sk.get("active"):
        A0, A1 = rest[0], rest[1]
        rest = rest[2:]
        f = Fiber(cs, vs, active_range=(A0, A1))
    else:
        f = Fiber(cs, vs)
        A0, A1 = f.getActive()
    return f, cs, vs, A0, A1, rest


def uniform(sk, *xs):
    f, cs, vs, A0, A1, rest = _fiber(sk, xs)
    s, pre, post, rel = sk["step"], sk["pre"], sk["post"], sk["rel"]
    r = f.splitUniform(s, relativeCoords=rel, pre_halo=pre, post_halo=post)
    for P in r.coords:
        if P % s != 0:
            return fail("partition start not a multiple of the step")
    # uniform boundaries that can matter: from the lowest to the highest multiple touched (loop-free in the symbols)
    if len(cs) == 0:
        return len(r.coords) == 0
    J = (s + pre + post + s - 1) // s + 1       # concrete: how many consecutive partitions can hold one element
    prod, acts = produced(r)
    if prod is None:
        return fail("uniform: result not a well-formed 2-level fiber of non-empty partitions")
    exp = []
    for j in range(len(cs)):
        c = cs[j]
        if vs[j] == 0 or not (A0 - pre <= c < A1 + post):
            continue
        base = (c - post) // s * s
        for jj in range(J):
            b = base + jj * s
            if b - pre <= c < b + s + post and b + s > A0 and b < A1:
                exp.append((b, c - b if rel else c, vs[j]))
    exp.sort()
    if prod != exp:
        return fail("uniform: partitions differ from the specification: got %r expected %r" % (prod, exp))
    for P, (a0, a1) in acts:
        if a0 != max(P, A0) or a1 != min(P + s, A1):
            return fail("uniform: partition active range is not its interval clipped to the parent's")
    for k in range(len(r.coords) - 1):
        if not (r.coords[k] < r.coords[k + 1]):
            return fail("partition starts not ascending")
    return True


def nonuniform(sk, *xs):
    f, cs, vs, A0, A1, rest = _fiber(sk, xs)
    k, pre, post, rel = sk["k"], sk["pre"], sk["post"], sk["rel"]
    splits = list(rest[:k])
    r = f.splitNonUniform(list(splits), relativeCoords=rel, pre_halo=pre, post_halo=post)
    if len(cs) == 0:
        return len(r.coords) == 0
    return check(r, cs, vs, A0, A1, splits + [INF], pre, post, rel, "splitNonUniform")


def _active_present(cs, vs, A0, A1):
    return [cs[i] for i in range(len(cs)) if vs[i] != 0 and A0 <= cs[i] < A1]


def equal(sk, *xs):
    f, cs, vs, A0, A1, rest = _fiber(sk, xs)
    size, pre, post, rel = sk["size"], sk["pre"], sk["post"], sk["rel"]
    r = (f // sk["parts"]) if sk.get("floordiv") else f.splitEqual(size, relativeCoords=rel, pre_halo=pre, post_halo=post)
    if len(cs) == 0:
        return len(r.coords) == 0
    ap = _active_present(cs, vs, A0, A1)
    if sk.get("floordiv"):
        size = (len([v for v in vs if v != 0]) + sk["parts"] - 1) // sk["parts"] if False else size
    bounds = []
    for i, c in enumerate(ap):
        if i == 0:
            bounds.append(A0)
        elif i % size == 0:
            bounds.append(c)
    if not bounds:
        return len(r.coords) == 0
    return check(r, cs, vs, A0, A1, bounds + [INF], pre, post, rel, "splitEqual")


def unequal(sk, *xs):
    f, cs, vs, A0, A1, rest = _fiber(sk, xs)
    sizes, pre, post, rel = sk["sizes"], sk["pre"], sk["post"], sk["rel"]
    r = f.splitUnEqual(list(sizes), relativeCoords=rel, pre_halo=pre, post_halo=post)
    if len(cs) == 0:
        return len(r.coords) == 0
    ap = _active_present(cs, vs, A0, A1)
    starts = [0]
    for sz in sizes:
        starts.append(starts[-1] + sz)       # remainder (if any) forms the last chunk
    bounds = []
    for i, c in enumerate(ap):
        if i == 0:
            bounds.append(A0)
        elif i in starts:
            bounds.append(c)
    if not bounds:
        return len(r.coords) == 0
    return check(r, cs, vs, A0, A1, bounds + [INF], pre, post, rel, "splitUnEqual")


def truediv(sk, *xs):
    """f / k == splitUniform(ceil(shape / k))"""
    f, cs, vs, A0, A1, rest = _fiber(sk, xs)
    S, parts = sk["S"], sk["parts"]
    f = Fiber(cs, vs, shape=S)
    a = f / parts
    b = f.splitUniform((S + parts - 1) // parts)
    return raw(a) == raw(b) and wf(a, 2) >= 0


def resplit(sk, *xs):
    """partitions of partitions still tile the original: split by 2*s then each partition by s == split by s"""
    f, cs, vs, A0, A1, rest = _fiber(sk, xs)
    s = sk["step"]
    outer = f.splitUniform(2 * s)
    got = []
    for P, lf in zip(outer.coords, outer.payloads):
        inner = lf.splitUniform(s)
        for Q, ll in zip(inner.coords, inner.payloads):
            if not (P <= Q < P + 2 * s):
                return fail("inner partition start outside its outer partition")
            for c, p in zip(ll.coords, ll.payloads):
                got.append((Q, c, pv(p)))
    direct = f.splitUniform(s)
    want, _ = produced(direct)
    if want is None:
        return fail("direct split malformed")
    return got == want or fail("partitions of partitions do not tile the original: %r vs %r" % (got, want))


def deep(sk, *xs):
    """split at depth 1 through the Tensor API: every sub-fiber is split by the same rule"""
    tree, kind = sk["tree"], sk["kind"]
    S = sk["S"]
    f, pos, _ = build_tree(tree, xs)
    t = Tensor.fromFiber(["M", "K"], f, shape=[sk.get("SM", S), S])      # SM: the upper rank has a smaller extent than the rank being split
    subs = [(c, list(p.coords), [pv(x) for x in p.payloads], p.getActive()) for c, p in zip(t.getRoot().coords, t.getRoot().payloads)]
    if kind == "uniform":
        r = t.splitUniform(sk["step"], depth=1)
    elif kind == "equal":
        r = t.splitEqual(sk["size"], depth=1)
    else:
        r = t.splitUnEqual(list(sk["sizes"]), depth=1)
    root = r.getRoot()
    if r.getRankIds() != ["M", "K.1", "K.0"]:
        return fail("rank ids after split")
    if list(root.coords) != [c for c, _, _, _ in subs]:
        return fail("upper rank changed")
    if not mirror(r):
        return False
    for (c, cs, vs, (A0, A1)), mid in zip(subs, root.payloads):
        if not isinstance(mid, Fiber):
            return fail("sub-fiber not split")
        if len(cs) == 0:
            if len(mid.coords) != 0:
                return fail("empty sub-fiber produced partitions")
            continue
        if wf(mid, 2) < 0 and len(mid.coords) > 0:
            return fail("a sub-fiber was left unsplit (non-uniform leaf depth)")
        if kind == "uniform":
            s = sk["step"]
            bounds = list(range(0, S + s, s))
            ok = check(mid, cs, vs, A0, A1, bounds, 0, 0, False, "deep uniform")
        else:
            ap = _active_present(cs, vs, A0, A1)
            if kind == "equal":
                bounds = [A0 if i == 0 else x for i, x in enumerate(ap) if i % sk["size"] == 0]
            else:
                starts = [0]
                for sz in sk["sizes"]:
                    starts.append(starts[-1] + sz)
                bounds = [A0 if i == 0 else x for i, x in enumerate(ap) if i in starts]
            if not bounds:
                ok = len(mid.coords) == 0
            else:
                ok = check(mid, cs, vs, A0, A1, bounds + [INF], 0, 0, False, "deep " + kind)
        if not ok:
            return False
    return True


def _pats(n):
    import itertools
    return list(itertools.product((1, 0), repeat=n))


def obligations(tier):
    q = tier == "quick"
    obs = []
    N = 3 if q else 4

    def base(n, active):
        cn = names("c", n)
        ps = cn + (["A0", "A1"] if active else [])
        pre = chain_pre(cn) + bound_pre(cn, 0, None) + (["0 <= A0", "A0 <= A1"] if active else [])
        return ps, pre

    for n in range(N + 1):
        for pat in _pats(n):
            ptag = "".join(map(str, pat)) or "e"
            # uniform
            for step in ((1, 2, 3) if q else (1, 2, 3, 4)):
                halos = [(0, 0)]
                if n <= 2 or (not q and n == 3):
                    # thorough: larger halos, and 3 coordinates with a fixed active range; 4 coordinates run without halos
                    # (3+ coordinates, a symbolic active range and two halos together do not finish: measured at design time)
                    halos += [(1, 0), (0, 1), (1, 1)] if q else [(1, 0), (0, 1), (1, 1), (2, 1), (1, 2)]
                for pre_h, post_h in halos:
                    for rel in ((False, True) if (pre_h, post_h) == (0, 0) else (False,)):
                        active = not (n >= 3 and (pre_h, post_h) != (0, 0))
                        ps, pre = base(n, active)
                        obs.append(Ob("uniform/%d/%s/s%d/h%d%d/%s" % (n, ptag, step, pre_h, post_h, "rel" if rel else "abs"), "uniform",
                                      dict(n=n, pat=list(pat), active=active, step=step, pre=pre_h, post=post_h, rel=rel), ps, pre))
            # non-uniform
            for k in ((1, 2) if q else (1, 2, 3)):
                for pre_h, post_h in ([(0, 0), (1, 1)] if n <= 2 else [(0, 0)]):
                    ps, pre = base(n, True)
                    bn = names("b", k)
                    obs.append(Ob("nonuniform/%d/%s/k%d/h%d%d" % (n, ptag, k, pre_h, post_h), "nonuniform",
                                  dict(n=n, pat=list(pat), active=True, k=k, pre=pre_h, post=post_h, rel=False), ps + bn,
                                  pre + chain_pre(bn) + bound_pre(bn, 0, None)))
            # equal / unequal in position space
            for size in (1, 2):
                for pre_h, post_h in ([(0, 0), (1, 1)] if n <= 2 else [(0, 0)]):
                    ps, pre = base(n, True)
                    obs.append(Ob("equal/%d/%s/sz%d/h%d%d" % (n, ptag, size, pre_h, post_h), "equal",
                                  dict(n=n, pat=list(pat), active=True, size=size, pre=pre_h, post=post_h, rel=False), ps, pre))
            for sizes in ([[1, 1], [2, 1], [1]] if q else [[1, 1], [2, 1], [1], [1, 2], [2, 2]]):
                ps, pre = base(n, True)
                obs.append(Ob("unequal/%d/%s/%s" % (n, ptag, "".join(map(str, sizes))), "unequal",
                              dict(n=n, pat=list(pat), active=True, sizes=sizes, pre=0, post=0, rel=False), ps, pre))
        # shorthands and re-splits (all values present)
        ps, pre = base(n, False)
        cn = names("c", n)
        for parts in (2, 3):
            obs.append(Ob("truediv/%d/%d" % (n, parts), "truediv", dict(n=n, pat=[1] * n, S=6, parts=parts), ps, pre + bound_pre(cn, 0, 6)))
        ps, pre = base(n, True)
        for step in (1, 2):
            obs.append(Ob("resplit/%d/s%d" % (n, step), "resplit", dict(n=n, pat=[1] * n, active=True, step=step), ps, pre))
    S = 6
    for tree in ([[2, 1], [1, 0], [0, 2]] if q else [[2, 1], [1, 0], [0, 2], [2, 2], [1, 1]]):
        ps = names("x", tree_params(tree))
        pre, _, cn = tree_pre(tree, ps)
        pre = pre + bound_pre(cn, 0, S)
        for kind, extra in (("uniform", {"step": 2}), ("uniform", {"step": 3}), ("equal", {"size": 1}), ("equal", {"size": 2}), ("unequal", {"sizes": [1, 1]})):
            sk = dict(tree=tree, kind=kind, S=S)
            sk.update(extra)
            ob = Ob("deep/%s/%s%s" % (str(tree).replace(" ", ""), kind, "".join(str(v) for v in extra.values()).replace(" ", "")), "deep", sk, ps, pre)
            ob.tags["alldefault_sub"] = alldefault_sub_expr(tree, ps)
            obs.append(ob)
            if kind == "uniform" and tree in ([2, 1], [1, 1]):
                sk2 = dict(sk, SM=2)
                ob2 = Ob("deep/%s/%s%s/upper-extent2" % (str(tree).replace(" ", ""), kind, "".join(str(v) for v in extra.values()).replace(" ", "")), "deep", sk2, ps,
                         pre + bound_pre(cn[:len(tree)], 0, 2))
                ob2.tags["alldefault_sub"] = alldefault_sub_expr(tree, ps)
                obs.append(ob2)
    return obs
