"""C06 — kernel results do not depend on the dataflow used to compute them."""
from fvsym.engine import Ob
from fvsym.rt import *  # noqa
from fvsym import kernels

BOUNDS = {
    "quick": "dot (K=3), matrix-vector (2x3), matrix-matrix (2x2x2), elementwise (M=3), row/column reductions (2x3): one operand's entries symbolic integers (each may be 0: "
             "every sparsity pattern incl. empty operands), the other concrete from patterns over {0,2,3}; every loop order implemented (operands swizzled), uniform tilings "
             "of K or M by 1 and 2, two-finger and leader-follower intersection; operands built both canonically and with explicit zeros / all-zero rows",
    "thorough": "matrix-vector 3x3 (untiled loop orders) and 2x4 (all dataflows), matrix-matrix 2x3x2, tilings by 3, every concrete pattern of the second operand",
}
OUTSIDE = "boxes larger than the bound; both factors symbolic at once (products must stay linear); float values; tiling a lower rank of an operand that stores all-default sub-fibers (explicit all-zero rows): that is the region of known finding F16, reported under C02/C08/C09"
ASSUMPTIONS = ["A1 integers only", "S1, S2"]


def _nest(dims, xs, pos=0):
    if len(dims) == 1:
        return [xs[pos + i] for i in range(dims[0])], pos + dims[0]
    out = []
    for _ in range(dims[0]):
        n, pos = _nest(dims[1:], xs, pos)
        out.append(n)
    return out, pos


def kernel(sk, *xs):
    kind, variant, style, explicit = sk["kind"], sk["variant"], sk.get("style", "2f"), sk.get("explicit", False)
    if sk.get("sym", "A") == "A":
        A, _ = _nest(sk["adims"], xs)
        B = sk["B"]
    else:
        B, _ = _nest(sk["bdims"], xs)
        A = sk["A"]
    if kind == "dot":
        out, z, cnt = kernels.dot(A, B, variant, style, explicit)
        ref = sum(A[k] * B[k] for k in range(len(A)))
        if out != ref:
            return fail("dot product differs from the dense result")
        return True
    if kind == "mv":
        out, z, cnt = kernels.mv(A, B, variant, style, explicit)
        ref = [sum(A[m][k] * B[k] for k in range(len(B))) for m in range(len(A))]
    elif kind == "mm":
        out, z, cnt = kernels.mm(A, B, variant, style, explicit)
        ref = [[sum(A[m][k] * B[k][n] for k in range(len(B))) for n in range(len(B[0]))] for m in range(len(A))]
    elif kind == "elem":
        out, z, cnt = kernels.elementwise(A, B, variant, explicit)
        ref = [A[m] * B[m] for m in range(len(A))]
    elif kind == "reduce":
        out, z, cnt = kernels.reduce_rows(A, variant, explicit)
        if variant == "row":
            ref = [sum(r) for r in A]
        else:
            ref = [sum(A[m][k] for m in range(len(A))) for k in range(len(A[0]))]
    if out != ref:
        return fail("%s/%s: output differs from the dense result: %r vs %r" % (kind, variant, out, ref))
    # (what a populate loop may leave behind is C05's subject: an output sub-fiber emptied by a later pass of a K-outermost
    #  dataflow legitimately stays as an empty sub-fiber; C06 speaks about content)
    if wf(z.getRoot()) < 0 or not mirror(z):
        return fail("%s/%s: output tensor not well-formed" % (kind, variant))
    return True


def obligations(tier):
    q = tier == "quick"
    obs = []

    def add(kind, variant, adims, B, style="2f", explicit=False, sym="A", A=None, bdims=None):
        if sym == "A":
            n = box_size(adims)
            sk = dict(kind=kind, variant=variant, style=style, explicit=explicit, sym="A", adims=adims, B=B)
        else:
            n = box_size(bdims)
            sk = dict(kind=kind, variant=variant, style=style, explicit=explicit, sym="B", bdims=bdims, A=A)
        tag = "".join(str(v) for v in (sum(B, []) if B and isinstance(B[0], list) else (B or []))) if sym == "A" else "symB"
        obs.append(Ob("%s/%s/%s/%s%s/%s" % (kind, variant, style, "x".join(map(str, adims or bdims)), ("est" if explicit == "estimated" else "e") if explicit else "", tag), "kernel", sk, names("v", n), []))

    # dot
    for B in ([[2, 0, 3], [0, 0, 0]] if q else [[2, 0, 3], [0, 0, 0], [3, 2, 2], [0, 3, 0]]):
        for variant in ("K", "t1", "t2"):
            for style in ("2f", "lf"):
                for explicit in (False, True):
                    add("dot", variant, [3], B, style, explicit)
    # matrix-vector
    for B in ([[2, 0, 3]] if q else [[2, 0, 3], [0, 0, 0], [3, 2, 2]]):
        for variant in ("MK", "KM", "MK1K0/1", "MK1K0/2", "M1M0K/1", "M1M0K/2"):
            for style in ("2f", "lf"):
                for explicit in ((False, True) if variant in ("MK", "KM") or not q else (False,)):
                    if explicit and variant.startswith("MK1K0"):
                        continue      # tiling a lower rank of an operand that holds all-default sub-fibers: region of known finding F16 (C02/C08/C09)
                    add("mv", variant, [2, 3], B, style, explicit)
    for variant in ("MK", "KM", "MK1K0/2"):
        add("mv", variant, None, None, "2f", False, sym="B", A=[[2, 0, 3], [0, 0, 3]], bdims=[3])
    # a rotation of three ranks (tiled M, K outermost) and operands whose rank shapes are only estimated
    for B in ([[2, 0, 3]] if q else [[2, 0, 3], [3, 2, 2]]):
        add("mv", "MK-ref", [2, 3], B)
        add("mv", "MK-dense", [2, 3], B)
        add("mv", "KM1M0/1", [2, 3], B)
        add("mv", "KM1M0/2", [3, 2], B[:2])          # (3x3 does not finish inside the thorough budget)
        for variant in ("MK", "MK1K0/2", "KM"):
            add("mv", variant, [2, 3], B, "2f", "estimated")
    # matrix-matrix
    for B in ([[[2, 0], [0, 3]]] if q else [[[2, 0], [0, 3]], [[0, 0], [2, 3]], [[3, 2], [2, 3]]]):
        for variant in ("MNK", "MKN", "KMN", "NMK"):
            for explicit in (False, True):
                add("mm", variant, [2, 2], B, "2f", explicit)
        add("mm", "MNK", [2, 2], B, "lf", False)
    for variant in ("MNK", "KMN"):
        add("mm", variant, None, None, "2f", False, sym="B", A=[[2, 0], [3, 3]], bdims=[2, 2])
    # elementwise and reductions
    for B in ([[2, 0, 3]] if q else [[2, 0, 3], [0, 0, 0], [3, 3, 3]]):
        for variant in ("M", "t1", "t2"):
            for explicit in (False, True):
                add("elem", variant, [3], B, "2f", explicit)
    for variant in ("row", "col", "colT"):
        for explicit in (False, True):
            add("reduce", variant, [2, 3], [], "2f", explicit)
    if not q:
        for variant in ("MK", "KM", "MK1K0/2", "MK1K0/3", "M1M0K/2"):
            if variant in ("MK", "KM"):
                add("mv", variant, [3, 3], [2, 0, 3], "2f", False)      # 512 sparsity patterns; the tiled dataflows at 3x3 are too close to the budget
            add("mv", variant, [2, 4], [2, 0, 3, 1], "2f", False)
        for variant in ("MNK", "MKN", "KMN", "NMK"):
            add("mm", variant, [2, 3], [[2, 0], [0, 3], [1, 1]], "2f", False)
    return obs
