"""C01 — fibertrees stay well-formed under every history of public mutations (inductive step + short histories).
C02 re-uses history() with the rank-mirror assertion switched on."""
from fvsym.engine import Ob
from fvsym.rt import *  # noqa
from fvsym import ops

BOUNDS = {
    "quick": "pre-state: any well-formed tree of skeleton 0/1/2/3-fiber, [1,1], [2,1], [1,0] (coordinates and values symbolic, so explicit "
             "defaults and all-default sub-fibers are models), unowned and tensor-owned; one public mutator with symbolic arguments "
             "(__setitem__ at every position -n-1..n incl. negative spellings); 2-step histories on 1- and 2-fibers and all 3-step histories over {reference write, append, extend, position assignment, updateCoords} on a 1-fiber; injective-table updateCoords (every new coordinate symbolic), element (CoordPayload) right operands of in-place arithmetic, deprecated insert / insertOrLookup, Tensor.__setitem__, populate bodies that only reach below the offered sub-fiber (depth 3), clearing a non-root fiber, start_pos reference access; pinned counterparts (tree coordinates fixed at 0,2,4,.. per fiber) of the obligations measured slow",
    "thorough": "adds 3-fibers for every op, [2,2] and [[1,1]] skeletons, 2-step histories over all op pairs and selected 3-step histories",
}
OUTSIDE = ("histories longer than the bound that depend on hidden state other than coords/payloads/saved position; non-injective "
           "updateCoords callbacks; unordered or non-unique fibers; floats")
ASSUMPTIONS = ["A1 integers only", "A2 callbacks c -> c+o, c -> o-c, any injective table on the stored coordinates of the root fiber, p -> p+w", "A4 type-consistent arguments",
               "pre-state invariant = well-formed tree built by the public constructor (every wf tree of the skeleton is constructible)"]


def history(sk, *xs):
    tree, owned, oplist, d = sk["tree"], sk["owned"], sk["ops"], sk["depth"]
    f, pos, _ = build_tree(tree, xs)
    t = None
    if owned:
        t = Tensor.fromFiber(["M", "K", "J"][3 - d:], f)
        f = t.getRoot()
    want_mirror = sk.get("mirror", False)
    for name, opt in oplist:
        n = ops.nargs(name, d, opt)
        a = list(xs[pos:pos + n])
        pos += n
        snap = raw(f)
        r = ops.apply(name, d, f, t, a, opt)
        if wf(f, d) < 0:
            return fail("not well-formed after %s (%s): %r" % (name, r, raw(f) if raw_lens_ok(f) else "coords/payloads length mismatch"))
        if r.startswith("pairing"):
            return fail(r)
        if r == "rejected" and raw(f) != snap:
            return fail("%s was rejected for coordinate order but changed the tree" % name)
        if want_mirror and t is not None:
            if t.getRoot() is not f:
                return fail("root replaced")
            if not mirror(t):
                return False
    return True


def mk(tree, owned, oplist, mirror_=False, budget=None, tag=""):
    d = tree_depth(tree)
    n0 = tree_params(tree)
    ns = names("x", n0)
    pre, _, _ = tree_pre(tree, ns)
    allp = list(ns)
    for k, (name, opt) in enumerate(oplist):
        n = ops.nargs(name, d, opt)
        an = names("o%d_" % k, n)
        allp += an
        pre += ops.arg_pre(name, d, opt, an)
        if name in ("iadd_s", "shape_ref", "iadd_elem"):
            # these loop over the whole shape: coordinates bounded so the trip count is
            _, _, cnames = tree_pre(tree, ns)
            pre += bound_pre(cnames, 0, 4)
    label = "+".join(nm + ("" if not o else "(" + ",".join("%s=%s" % kv for kv in sorted(o.items())) + ")") for nm, o in oplist)
    tname = str(tree).replace(" ", "")
    ob = Ob("%s%s/%s/%s" % (tag, tname, "owned" if owned else "free", label), "history",
            dict(tree=tree, owned=owned, ops=[[n_, o] for n_, o in oplist], depth=d, mirror=mirror_), allp, pre, budget=budget)
    if tree not in (0, []):
        bounded = any(nm in ("iadd_s", "shape_ref", "iadd_elem") for nm, _ in oplist)
        # pinned coordinates leave gaps (0, 2, 4, ...) so that insertions *between* stored elements stay possible, unless an op bounds the shape
        ob.pin = {k: (v if bounded else 2 * v) for k, v in tree_pin(tree, ns)[0].items()}
    return ob


def single_ops(d, n_top, tier):
    """all single operations applicable to a tree of depth d whose root has n_top elements"""
    out = [("ref_assign", {}), ("ref_add", {}), ("ref_add_elem", {}), ("ref_assign_elem", {}), ("posref", {}), ("append", {}), ("clear", {}), ("insert_dep", {}), ("insertOrLookup_dep", {}),
           ("upd_coords_inc", {}), ("upd_coords_dec", {})]
    for pos in range(-n_top - 1, n_top + 1):
        out.append(("setitem_cp", {"pos": pos}))
        out.append(("setitem_coord", {"pos": pos}))
        out.append(("setitem_val", {"pos": pos}))
    for sp in range(n_top):
        out.append(("ref_startpos", {"s": sp}))
        out.append(("posref_startpos", {"s": sp}))
    out.append(("extend", {"n": 1}))
    out.append(("extend", {"n": 2}))
    out.append(("range_shape_ref", {"span": 3}))
    if n_top >= 2:
        out.append(("upd_coords_table", {"n": n_top}))
    if d == 1:
        out += [("iadd_s", {}), ("imul_s", {}), ("upd_payloads", {}), ("iadd_elem", {})]
        for n in (1, 2):
            out += [("iadd_f", {"n": n}), ("imul_f", {"n": n}), ("ilshift_f", {"n": n}), ("populate", {"n": n})]
    else:
        out += [("ref_prefix", {}), ("upd_coords_inc", {"depth": 1}), ("upd_coords_dec", {"depth": 1}),
                ("upd_payloads", {"depth": 1}), ("populate2", {})]
    return out


def trees(tier):
    q = tier == "quick"
    t = [(0, False), (1, False), (2, False), (2, True), ([1, 1], False), ([1, 1], True), ([2, 1], True), ([1, 0], True), ([], True)]
    if not q:
        t += [(3, False), (3, True), ([2, 2], True), ([0, 1], True), ([2, 1], False)]
    return t


def n_top(tree):
    return tree if isinstance(tree, int) else len(tree)


def obligations(tier, mirror_=False, tag=""):
    obs = []
    for tree, owned in trees(tier):
        if mirror_ and not owned:
            continue
        d = tree_depth(tree) if tree != [] else 2
        for op in single_ops(d, n_top(tree), tier):
            if tier == "quick" and op[0] == "populate2" and tree == [2, 1]:
                continue
            if mirror_ and d >= 2 and op[0] in ("append", "extend", "setitem_cp", "setitem_val", "setitem_coord", "insert_dep", "insertOrLookup_dep"):
                # C02's quantifier: insertions, populate, dense reference iteration, fiber assignment, clearing.
                # Splicing caller-built sub-fibers in by position is documented as not registering them.
                continue
            obs.append(mk(tree, owned, [op], mirror_, tag=tag))
        if owned and not mirror_ and n_top(tree) >= 1:
            obs.append(mk(tree, owned, [("setitem_cp", {"pos": n_top(tree) - 1, "via": "tensor"})], mirror_, tag=tag))
    for tree in ([[[1]], [[]]] if tier == "quick" else [[[1]], [[]], [[1, 1]], [[1], [1]]]):
        obs.append(mk(tree, True, [("populate_ref", {})], mirror_, tag=tag))
    for tree in ([[1], [1]], [[1, 1]], [1, 1], [[0], [0]]):
        obs.append(mk(tree, True, [("clear_sub", {})], mirror_, tag=tag))
    obs.append(mk([1, 0], True, [("populate_ref", {})], mirror_, tag=tag))
    if tier == "quick" and not mirror_:
        # an inversion early in a 3-fiber followed by an ordered last pair needs at least three stored elements
        obs.append(mk(3, False, [("upd_coords_table", {"n": 3})], mirror_, tag=tag))
        obs.append(mk([1, 1, 1], True, [("upd_coords_table", {"n": 3})], mirror_, tag=tag))
    # short histories (hidden state: saved positions, active ranges set by populate, defaults replaced by <<=)
    pairs = [("populate", {"n": 1}), ("ref_assign", {}), ("append", {}), ("setitem_cp", {"pos": 0}), ("upd_coords_dec", {}),
             ("ilshift_f", {"n": 1}), ("range_shape_ref", {"span": 2}), ("iadd_f", {"n": 1}), ("clear", {})]
    hist_trees = [(1, mirror_), (2, mirror_)] if tier == "quick" else [(0, mirror_), (1, mirror_), (2, mirror_)]
    if mirror_ and tier == "quick":
        hist_trees = [(1, True)]
    for tree, owned in hist_trees:
        for a in pairs:
            for b in pairs:
                if a[0] == "clear" and b[0] == "clear":
                    continue
                if tier == "quick" and tree == 2 and (a[0] in ("iadd_f", "ilshift_f") and b[0] in ("iadd_f", "ilshift_f")):
                    continue
                if tier == "quick" and tree == 2 and (a[0], b[0]) == ("populate", "populate"):
                    continue
                obs.append(mk(tree, owned, [a, b], mirror_, tag=tag))
    pairs2 = [("populate2", {}), ("ref_assign", {}), ("ref_prefix", {}), ("append", {}), ("upd_coords_dec", {"depth": 1}),
              ("setitem_coord", {"pos": 0}), ("clear", {})]
    if mirror_:
        pairs2 = [("populate2", {}), ("ref_assign", {}), ("ref_prefix", {}), ("upd_coords_dec", {"depth": 1}), ("range_shape_ref", {"span": 2})]
    for a in pairs2:
        for b in pairs2:
            if a[0] == "clear" and b[0] == "clear":
                continue
            if tier == "quick" and ("populate2" in (a[0], b[0]) or (a[0], b[0]) == ("ref_assign", "ref_assign")):
                continue
            obs.append(mk([1, 1], True, [a, b], mirror_, tag=tag))
    if tier == "quick" and not mirror_:
        # 3-step histories on a 1-fiber: a value remembered by an earlier step (largest coordinate, saved position, active range) must not be
        # trusted by a later one after the fiber changed in between
        tri = [("ref_assign", {}), ("append", {}), ("setitem_cp", {"pos": -1}), ("upd_coords_dec", {}), ("extend", {"n": 1})]
        for a in tri:
            for b in tri:
                for c in tri:
                    obs.append(mk(1, False, [a, b, c], mirror_, tag=tag))
    if tier == "thorough":
        tri = [("populate", {"n": 1}), ("ref_assign", {}), ("append", {}), ("setitem_cp", {"pos": -1}), ("upd_coords_dec", {}), ("extend", {"n": 1})]
        for a in tri:
            for b in tri:
                for c in tri:
                    obs.append(mk(1, mirror_, [a, b, c], mirror_, tag=tag))
    return obs
