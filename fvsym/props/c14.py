"""C14 — rank ids, shapes, defaults, formats and active ranges follow the data."""
import copy

from fvsym.engine import Ob
from fvsym.rt import *  # noqa
from fvsym import xforms

BOUNDS = {
    "quick": "transforms on skeletons [1,1], [1,0] (and [[1]] for depth-1 forms) with symbolic authoritative shape entries (coords < S_i <= 4: ranks declared 'U' are iterated over their whole shape), and with estimated shapes; "
             "leaf default 9; formats over {C,U}^d (quick: CU and UC; thorough: all four, mutability alternating); mutable both ways: rank ids, authoritative shape re-arrangement, default, formats, mutability, coordinates inside "
             "shape and active range, iterActive == iterOccupancy; lazy results (& | ^ - <<, project, prune, intersection, union, coiter*) carry rank id / active range; "
             "an unowned fiber's attributes are replaced by the rank's after Tensor.fromFiber / setRoot; split-then-flatten(absolute), splits selected by rank id (alone and together with a different depth), swizzles that leave a suffix of ranks in place with a 'U' trailing rank, three-rank rotations of a 1x2x3 box",
    "thorough": "adds [2,2], [0,1], the division shorthands, levels=2 flatten/unflatten on depth 3, 2x2x2 swizzles",
}
OUTSIDE = "names and colours beyond the '+split' style suffixes; tuple-shaped defaults"
ASSUMPTIONS = ["A1 integers only", "S1, S2"]

DEFAULT = 9


def _all_fibers(root):
    out = []
    for lv in fibers_at_depth(root):
        out += lv
    return out


def _inside(c, lo, hi):
    return lo <= c < hi


def attrs(sk, *xs):
    name, opt, d = sk["xf"], sk["opt"], sk["depth"]
    fmts, mutable, auth = sk["fmts"], sk["mutable"], sk["auth"]
    if sk.get("box"):
        f, pos = build_box(sk["box"], xs)
        shape = list(sk["box"])
    else:
        f, pos, _ = build_tree(sk["tree"], xs)
        shape = list(xs[pos:pos + d]) if auth else None
        pos += d if auth else 0
    ids = rank_ids_for(d)
    t = Tensor.fromFiber(ids, f, shape=shape, default=DEFAULT)
    for rid, fm in zip(ids, fmts):
        t.setFormat(rid, fm)
    t.setMutable(mutable)
    n = xforms.xf_nargs(name, opt)
    a = list(xs[pos:pos + n])
    try:
        r = xforms.apply_xf(name, t, opt, a)
    except (TypeError, AssertionError, ValueError, IndexError):
        return True      # C09 decides whether the transform must succeed; C14 speaks about the tensors produced
    dd = opt.get("depth", 0)
    lv = opt.get("levels", 1)
    want_ids = list(ids)
    want_shape = list(shape) if shape else None
    want_fmt = {}
    if (name.startswith("split") and name != "split_flatten") or name in ("truediv", "floordiv"):
        x = ids[dd]
        want_ids[dd:dd + 1] = [x + ".1", x + ".0"]
        if want_shape:
            want_shape[dd:dd + 1] = [shape[dd], shape[dd]]
        for i, rid in enumerate(ids):
            want_fmt[rid] = fmts[i]
        del want_fmt[x]
        want_fmt[x + ".1"] = want_fmt[x + ".0"] = fmts[dd]
    elif name == "swapRanks":
        want_ids[dd], want_ids[dd + 1] = ids[dd + 1], ids[dd]
        if want_shape:
            want_shape[dd], want_shape[dd + 1] = shape[dd + 1], shape[dd]
        for i, rid in enumerate(ids):
            want_fmt[rid] = fmts[i]
    elif name == "swizzleRanks":
        perm = opt["perm"]
        want_ids = [ids[i] for i in perm]
        if want_shape:
            want_shape = [shape[i] for i in perm]
        for i, rid in enumerate(ids):
            want_fmt[rid] = fmts[i]
    elif name in ("flattenRanks", "mergeRanks"):
        merged = ids[dd:dd + lv + 1]
        want_ids[dd:dd + lv + 1] = [merged]
        st = opt.get("style", "tuple")
        if want_shape:
            grp = shape[dd:dd + lv + 1]
            if st == "tuple":
                new = tuple(grp)
            elif st == "pair":
                new = tuple(grp[-2:])
                for v in reversed(grp[:-2]):
                    new = (v, new)
            elif st == "absolute":
                new = grp[-1]
            elif st == "relative":
                new = grp[0]
            elif st == "linear":
                new = grp[0] * sk["lin"] if sk.get("lin") else None
            want_shape[dd:dd + lv + 1] = [new]
        for i, rid in enumerate(ids):
            if rid not in merged:
                want_fmt[rid] = fmts[i]
    elif name == "split_flatten":
        # X -> X.1, X.0 -> [X.1, X.0] with absolute coordinates: the flattened rank has X's shape again
        x = ids[dd]
        want_ids[dd] = [x + ".1", x + ".0"]
        for i, rid in enumerate(ids):
            if i != dd:
                want_fmt[rid] = fmts[i]
    elif name == "flatten_unflatten":
        for i, rid in enumerate(ids):
            if not (dd <= i <= dd + lv):
                want_fmt[rid] = fmts[i]
    else:   # updateCoords*, updatePayloads, deepcopy
        for i, rid in enumerate(ids):
            want_fmt[rid] = fmts[i]
        if name.startswith("updateCoords"):
            want_shape = None
    if r.getRankIds() != want_ids:
        return fail("%s: rank ids %r, expected %r" % (name, r.getRankIds(), want_ids))
    if want_shape is not None and not (name == "flattenRanks" and opt.get("style") == "linear" and not sk.get("lin")):
        got = r.getShape(authoritative=True)
        if got != want_shape:
            return fail("%s: authoritative shape %r, expected %r" % (name, got, want_shape))
    if pv(r.getDefault()) != DEFAULT:
        return fail("%s: leaf default %r not carried over" % (name, pv(r.getDefault())))
    for rid, fm in want_fmt.items():
        if r.getFormat(rid) != fm:
            return fail("%s: format of rank %s is %r, expected %r" % (name, rid, r.getFormat(rid), fm))
    if r.isMutable() != mutable:
        return fail("%s: mutability hint not carried over" % name)
    # every stored coordinate lies inside the reported shape and its fiber's active range
    rshape = r.getShape()
    levels = fibers_at_depth(r.getRoot())
    # 'relative' coordinates are sums (meant for re-joining a relative split): the documented shape rule is only meaningful there.
    # updateCoords leaves it to the caller to pass a new shape ("you must change the shape to match").
    skip_shape_check = (name == "mergeRanks" and opt.get("style") == "relative") or name.startswith("updateCoords")
    for i, lvl in enumerate(levels):
        for fb in lvl:
            lo, hi = fb.getActive()
            for c in fb.coords:
                if name.startswith("updateCoords"):
                    continue
                if not (lo <= c < hi):
                    return fail("%s: stored coordinate %r outside its fiber's active range %r" % (name, c, (lo, hi)))
                if skip_shape_check:
                    continue
                if isinstance(rshape[i], int) and isinstance(c, int) and not (0 <= c < rshape[i]):
                    return fail("%s: stored coordinate %r outside the reported shape %r" % (name, c, rshape))
            if name.startswith("updateCoords"):
                continue
            occ = [c for c, p in fb.iterOccupancy()]
            act = [c for c, p in fb.iterActive()]
            if occ != act:
                return fail("%s: iterActive differs from iterOccupancy on a transformed fiber" % name)
    return True


def lazy_attrs(sk, lo, hi, lo2, hi2, o, *xs):
    na, nb, kind = sk["na"], sk["nb"], sk["kind"]
    ac, av = list(xs[:na]), list(xs[na:2 * na])
    bc, bv = list(xs[2 * na:2 * na + nb]), list(xs[2 * na + nb:2 * na + 2 * nb])
    a = Fiber(ac, av, active_range=(lo, hi))
    b = Fiber(bc, bv, active_range=(lo2, hi2))
    a.getRankAttrs().setId("A")
    b.getRankAttrs().setId("B")
    want_id, want_act = "A", (lo, hi)
    if kind == "and":
        z = a & b
    elif kind == "or":
        z = a | b
    elif kind == "xor":
        z = a ^ b
    elif kind == "sub":
        z = a - b
    elif kind == "lshift":
        z = a << b
        want_act = (lo2, hi2)
    elif kind == "intersection":
        z = Fiber.intersection(a, b, a)
    elif kind == "lf":
        z = Fiber.intersection(a, b, style="leader-follower")
    elif kind == "union":
        z = Fiber.union(a, b, b)
    elif kind == "prune":
        z = a.prune(lambda i, c, p: c < o)
    elif kind == "project_inc":
        z = a.project(lambda c: c + o)
        want_id, want_act = None, (lo + o, hi + o)       # a projection targets another rank: its id is the rank_id argument (pinned: 'Unknown' without it)
    elif kind == "project_dec":
        z = a.project(lambda c: o - c)
        want_id, want_act = None, (o - hi + 1, o - lo + 1)
    elif kind == "project_interval":
        z = a.project(lambda c: c + o, interval=(lo2, hi2))
        want_id, want_act = None, (lo2, hi2)
    elif kind == "project_rankid":
        z = a.project(lambda c: c + o, rank_id="Z")
        want_id, want_act = "Z", (lo + o, hi + o)
    elif kind == "coiter":
        z = Fiber.coiterRangeShape([a, b], lo2, hi2)
        want_act = (lo2, hi2)
    if want_id is not None and z.getRankAttrs().getId() != want_id:
        return fail("%s: lazy result carries rank id %r, expected %r" % (kind, z.getRankAttrs().getId(), want_id))
    got = z.getActive()
    if got[0] != want_act[0] or got[1] != want_act[1]:
        return fail("%s: lazy result active range %r, expected %r" % (kind, got, want_act))
    return True


def join(sk, S, *xs):
    """an unowned fiber's attributes are replaced by its rank's once it joins a tensor"""
    n = sk["n"]
    cs, vs = list(xs[:n]), list(xs[n:2 * n])
    f = Fiber(cs, vs, shape=S + 3, default=4)
    f.getRankAttrs().setId("X")
    f.getRankAttrs().setFormat("U")
    if sk["how"] == "fromFiber":
        t = Tensor.fromFiber(["M"], f, shape=[S], default=DEFAULT)
    else:
        t = Tensor(rank_ids=["M"], shape=[S], default=DEFAULT)
        t.setRoot(f)
    r = t.getRoot()
    if r.getRankAttrs() is not t.ranks[0].getAttrs():
        return fail("root does not use its rank's attributes")
    rank_shape = t.ranks[0].getShape(all_ranks=False) if sk["how"] == "setRoot" else S     # setRoot reconciles: the rank's shape may grow to the fiber's
    if r.getRankAttrs().getId() != "M" or r.getShape(all_ranks=False) != rank_shape or rank_shape < S or pv(r.getDefault()) != DEFAULT:
        return fail("id/shape/default of the joined fiber: %r %r %r" % (r.getRankAttrs().getId(), r.getShape(all_ranks=False), pv(r.getDefault())))
    if r.getActive() != (0, rank_shape):
        return fail("active range of the joined fiber is %r" % (r.getActive(),))
    if t.getFormat("M") != "C":
        return fail("format of the rank was taken from the unowned fiber")
    return True


def _nm(x):
    return str(x).replace(" ", "")


def obligations(tier):
    import itertools
    q = tier == "quick"
    obs = []
    xfl = [("splitUniform", {"step": 2}), ("splitUniform", {"step": 2, "depth": 1}), ("splitEqual", {"size": 1}), ("splitNonUniform", {"k": 2}),
           ("splitUnEqual", {"sizes": [1, 1]}), ("swapRanks", {}), ("flattenRanks", {}), ("flattenRanks", {"style": "pair"}), ("mergeRanks", {"style": "absolute"}),
           ("mergeRanks", {"style": "relative"}), ("flatten_unflatten", {}), ("updateCoords_inc", {}), ("updatePayloads", {"depth": 1}), ("deepcopy", {}),
           ("split_flatten", {"step": 2}), ("split_flatten", {"step": 1}),
           ("splitUniform", {"step": 2, "depth": 1, "via": "rankid"}), ("splitUniform", {"step": 2, "depth": 1, "via": "both"})]
    if not q:
        # (splits with halos or relative coordinates are not in this list: a halo element lies outside its partition's active range by
        #  definition and relative coordinates are offsets, so "stored coordinate inside the fiber's active range" is C08's clause there)
        xfl += [("truediv", {"parts": 2}), ("floordiv", {"parts": 2}), ("splitEqual", {"size": 2, "depth": 1})]
    for tree in ([[1, 1], [1, 0]] if q else [[2, 1], [1, 1], [1, 0], [2, 2], [0, 1]]):
        ps = names("x", tree_params(tree))
        tp, _, cn = tree_pre(tree, ps)
        top = cn[:len(tree)]
        low = cn[len(tree):]
        for name, opt in xfl:
            for auth in (True, False):
                if not auth and name in ("flattenRanks", "flatten_unflatten") and not (tree == [1, 1] and name == "flatten_unflatten"):
                    continue     # estimated shapes of tuple coordinates: see known finding F18 (one representative obligation kept)
                combos = [(["C", "U"], True), (["U", "C"], False)] if q else [(["C", "U"], True), (["U", "C"], False), (["C", "C"], False), (["U", "U"], True)]
                for fmts, mutable in combos:
                    an = names("p", xforms.xf_nargs(name, opt))
                    pre = list(tp) + bound_pre(cn, 0, 4)      # ranks declared "U" are iterated over their whole shape
                    sn = []
                    if auth:
                        sn = ["S0", "S1"]
                        pre += ["%s < S0" % c for c in top] + ["%s < S1" % c for c in low] + ["1 <= S0 <= 4", "1 <= S1 <= 4"]
                    if name == "updateCoords_inc":
                        pre += ["0 <= p0"]
                    if name == "splitNonUniform":
                        pre += chain_pre(an) + bound_pre(an, 0, None)
                    label = name + "(" + ",".join("%s=%s" % kv for kv in sorted(opt.items())) + ")"
                    obs.append(Ob("xf/%s/%s/%s/%s%s" % (_nm(tree), label.replace(" ", ""), "auth" if auth else "est", "".join(fmts), "m" if mutable else ""), "attrs",
                                  dict(tree=tree, xf=name, opt=opt, depth=2, fmts=fmts, mutable=mutable, auth=auth), ps + sn + an, pre))
    for perm in ([[1, 0]]):
        for fmts, mutable in [(["C", "U"], True), (["U", "C"], False)]:
            obs.append(Ob("xf/box2x2/swizzle/%s%s" % ("".join(fmts), "m" if mutable else ""), "attrs",
                          dict(tree=None, box=[2, 2], xf="swizzleRanks", opt={"perm": perm}, depth=2, fmts=fmts, mutable=mutable, auth=True), names("v", 4), []))
    for perm in ([2, 0, 1], [1, 2, 0], [0, 2, 1]):
        obs.append(Ob("xf/box1x2x3/swizzle%s/CUC" % "".join(map(str, perm)), "attrs",
                      dict(tree=None, box=[1, 2, 3], xf="swizzleRanks", opt={"perm": perm}, depth=3, fmts=["C", "U", "C"], mutable=True, auth=True), names("v", 6), []))
    # a permutation that leaves a suffix of the rank order in place: the untouched ranks keep their formats too
    for fmts in (["C", "C", "U"], ["U", "C", "U"]):
        obs.append(Ob("xf/box1x2x3/swizzle102/%s" % "".join(fmts), "attrs",
                      dict(tree=None, box=[1, 2, 3], xf="swizzleRanks", opt={"perm": [1, 0, 2]}, depth=3, fmts=fmts, mutable=False, auth=True), names("v", 6), []))
    tree = [[1]]
    ps = names("x", tree_params(tree))
    tp, _, cn = tree_pre(tree, ps)
    for name, opt in (("flattenRanks", {"depth": 1}), ("swapRanks", {"depth": 1}), ("splitUniform", {"step": 2, "depth": 2}), ("flatten_unflatten", {"levels": 2}),
                      ("flattenRanks", {"levels": 2})):
        pre = list(tp) + bound_pre(cn, 0, None) + ["%s < S%d" % (c, i) for i, c in enumerate(cn)] + ["1 <= S0 <= 3", "1 <= S1 <= 3", "1 <= S2 <= 3"]
        label = name + "(" + ",".join("%s=%s" % kv for kv in sorted(opt.items())) + ")"
        obs.append(Ob("xf/%s/%s/auth/CUC" % (_nm(tree), label.replace(" ", "")), "attrs",
                      dict(tree=tree, xf=name, opt=opt, depth=3, fmts=["C", "U", "C"], mutable=True, auth=True), ps + ["S0", "S1", "S2"], pre))
    for kind in ("and", "or", "xor", "sub", "lshift", "intersection", "lf", "union", "prune", "project_inc", "project_dec", "project_interval", "project_rankid", "coiter"):
        for na, nb in [(1, 1), (0, 1), (2, 0)]:
            an, bn = names("a", na), names("b", nb)
            pre = chain_pre(an) + chain_pre(bn) + ["lo <= hi", "lo2 <= hi2", "0 <= lo", "0 <= lo2"] + ["lo <= %s < hi" % c for c in an] + ["lo2 <= %s < hi2" % c for c in bn]
            if kind == "coiter":
                pre += ["hi2 - lo2 <= 3"]
            if kind == "project_dec":
                pre += ["hi <= o"]
            obs.append(Ob("lazy/%s/%dx%d" % (kind, na, nb), "lazy_attrs", dict(na=na, nb=nb, kind=kind),
                          ["lo", "hi", "lo2", "hi2", "o"] + an + names("u", na) + bn + names("w", nb), pre))
    for how in ("fromFiber", "setRoot"):
        for n in (0, 2):
            cn = names("c", n)
            obs.append(Ob("join/%s/%d" % (how, n), "join", dict(n=n, how=how), ["S"] + cn + names("v", n), chain_pre(cn) + bound_pre(cn, 0, None) + ["%s < S" % c for c in cn] + ["1 <= S"]))
    return obs
