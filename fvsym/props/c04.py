"""C04 — co-iteration operators compute exactly their coordinate-set truth tables."""
from fvsym.engine import Ob
from fvsym.rt import *  # noqa

BOUNDS = {
    "quick": "binary & | ^ - on leaf fibers with 0..2 stored elements each (all coordinates and values symbolic, value 0 = explicit default); "
             "interior (sub-fiber payload, tensor-owned) operands with up to 2x2 elements; 3-ary union/intersection with <= 4 stored elements in total; "
             "leader-follower with 2+2+1; mixed tuple arity 2 vs 2; 'U' rank over an active range of span <= 3; every n-ary result traversed twice; leader-follower with a 'U' leader; 3-ary union / intersection of fibers with fiber payloads (fresh empty fiber per absent side); mixed arity 2 vs 3; pinned counterparts of the slow interior obligations",
    "thorough": "binary operators up to 3x3 (leaf) and up to [2,1] x [1] (interior); 3-ary with <= 5 stored elements (union <= 4), 4-ary with <= 4; mixed arity up to 3 vs 2; 'U' span <= 4",
}
OUTSIDE = "k > 4 operands, more stored elements than the tier bound, non-integer coordinate components, floats"
ASSUMPTIONS = ["A1 integers only", "operands are ordered/unique fibers built by the public constructor (strictly increasing coordinates)"]


def _present_leaf(cs, vs):
    return [i for i in range(len(cs)) if vs[i] != 0]


def binop_leaf(sk, *xs):
    """a OP b over leaf fibers; explicit zeros count as absent; payload identity; operands unchanged."""
    na, nb, op = sk["na"], sk["nb"], sk["op"]
    ac, av = list(xs[:na]), list(xs[na:2 * na])
    bc, bv = list(xs[2 * na:2 * na + nb]), list(xs[2 * na + nb:2 * na + 2 * nb])
    a = Fiber(ac, av)
    b = Fiber(bc, bv)
    sa, sb = raw(a), raw(b)
    pa_store = list(a.payloads)
    pb_store = list(b.payloads)
    if op == "and":
        z = a & b
    elif op == "or":
        z = a | b
    elif op == "xor":
        z = a ^ b
    else:
        z = a - b
    got = [(c, p) for c, p in z]
    # reference: two-finger free, by pairwise comparison on the *present* elements
    ia = _present_leaf(ac, av)
    ib = _present_leaf(bc, bv)
    exp = []  # (coord, index in a or None, index in b or None)
    for i in ia:
        j_match = None
        for j in ib:
            if bc[j] == ac[i]:
                j_match = j
        exp.append((ac[i], i, j_match))
    for j in ib:
        found = False
        for i in ia:
            if ac[i] == bc[j]:
                found = True
        if not found:
            exp.append((bc[j], None, j))
    if op == "and":
        exp = [e for e in exp if e[1] is not None and e[2] is not None]
    elif op == "xor":
        exp = [e for e in exp if e[1] is None or e[2] is None]
    elif op == "sub":
        exp = [e for e in exp if e[1] is not None and e[2] is None]
    exp.sort(key=lambda e: e[0])
    if len(got) != len(exp):
        return fail("yielded %d elements, expected %d" % (len(got), len(exp)))
    for k in range(len(exp)):
        c, i, j = exp[k]
        gc, gp = got[k]
        if op != "sub":
            gp = pv(gp)  # tuple payloads arrive boxed
        if gc != c:
            return fail("coordinate %d differs" % k)
        if op == "and":
            if not (gp[0] is pa_store[i] and gp[1] is pb_store[j]):
                return fail("& did not deliver the operands' stored payloads")
        elif op == "sub":
            if gp is not pa_store[i]:
                return fail("- did not deliver a's stored payload")
        else:
            mask = ("A" if i is not None else "") + ("B" if j is not None else "")
            if gp[0] != mask:
                return fail("mask %r, expected %r" % (gp[0], mask))
            if i is not None:
                if gp[1] is not pa_store[i]:
                    return fail("a-side payload is not the stored one")
            else:
                if not isinstance(gp[1], Payload) or gp[1].value != 0:
                    return fail("absent a side is not a default box")
                for p in pa_store:
                    if gp[1] is p:
                        return fail("absent a side aliases a stored payload")
            if j is not None:
                if gp[2] is not pb_store[j]:
                    return fail("b-side payload is not the stored one")
            else:
                if not isinstance(gp[2], Payload) or gp[2].value != 0:
                    return fail("absent b side is not a default box")
    # every absent-side default is a *fresh* box: no two yielded elements share one
    if op in ("or", "xor"):
        fresh = []
        for k in range(len(exp)):
            gp = pv(got[k][1])
            if exp[k][1] is None:
                fresh.append(gp[1])
            if exp[k][2] is None:
                fresh.append(gp[2])
        for x in range(len(fresh)):
            for y in range(x + 1, len(fresh)):
                if fresh[x] is fresh[y]:
                    return fail("two absent-side defaults are the same object")
    if raw(a) != sa or raw(b) != sb:
        return fail("an operand changed")
    for k in range(na):
        if a.payloads[k] is not pa_store[k]:
            return fail("a's payload boxes were replaced")
    # the lazy result can be traversed again with the same outcome
    got2 = [(c, p) for c, p in z]
    if len(got2) != len(got):
        return fail("second traversal differs")
    return True


def _mk_binop_leaf(op, na, nb, budget=None):
    ps = names("a", na) + names("u", na) + names("b", nb) + names("w", nb)
    pre = chain_pre(names("a", na)) + chain_pre(names("b", nb))
    return Ob("%s/leaf/%dx%d" % (op, na, nb), "binop_leaf", dict(op=op, na=na, nb=nb), ps, pre, budget=budget)


def obligations(tier):
    obs = []
    N = 2 if tier == "quick" else 3
    for op in ("and", "or", "xor", "sub"):
        for na in range(N + 1):
            for nb in range(N + 1):
                obs.append(_mk_binop_leaf(op, na, nb))
    return obs


# ----------------------------------------------------------------------------- interior payloads, tensor-owned
def _leaf_empty(vs):
    for v in vs:
        if v != 0:
            return False
    return True


def binop_interior(sk, *xs):
    """a OP b where payloads are sub-fibers of tensor-owned trees; an all-default / zero-length sub-fiber is absent;
    neither operand tree nor its tensor's rank lists change."""
    sa_, sb_, op = sk["a"], sk["b"], sk["op"]   # e.g. [1, 0] = two children with 1 and 0 leaf elements
    pos = 0
    na, nb = len(sa_), len(sb_)
    ac = list(xs[pos:pos + na]); pos += na
    a_kids = []
    a_vals = []
    for n in sa_:
        cs = list(xs[pos:pos + n]); vs = list(xs[pos + n:pos + 2 * n]); pos += 2 * n
        a_kids.append(Fiber(cs, vs)); a_vals.append(vs)
    bc = list(xs[pos:pos + nb]); pos += nb
    b_kids = []
    b_vals = []
    for n in sb_:
        cs = list(xs[pos:pos + n]); vs = list(xs[pos + n:pos + 2 * n]); pos += 2 * n
        b_kids.append(Fiber(cs, vs)); b_vals.append(vs)
    ta = Tensor.fromFiber(["M", "K"], Fiber(ac, a_kids))
    tb = Tensor.fromFiber(["M", "K"], Fiber(bc, b_kids))
    a, b = ta.getRoot(), tb.getRoot()
    sa, sb = raw(a), raw(b)
    rsa, rsb = rank_sizes(ta), rank_sizes(tb)
    if op == "and":
        z = a & b
    elif op == "or":
        z = a | b
    elif op == "xor":
        z = a ^ b
    else:
        z = a - b
    got = [(c, p) for c, p in z]
    ia = [i for i in range(na) if not _leaf_empty(a_vals[i])]
    ib = [j for j in range(nb) if not _leaf_empty(b_vals[j])]
    exp = []
    for i in ia:
        jm = None
        for j in ib:
            if bc[j] == ac[i]:
                jm = j
        exp.append((ac[i], i, jm))
    for j in ib:
        found = False
        for i in ia:
            if ac[i] == bc[j]:
                found = True
        if not found:
            exp.append((bc[j], None, j))
    if op == "and":
        exp = [e for e in exp if e[1] is not None and e[2] is not None]
    elif op == "xor":
        exp = [e for e in exp if e[1] is None or e[2] is None]
    elif op == "sub":
        exp = [e for e in exp if e[1] is not None and e[2] is None]
    exp.sort(key=lambda e: e[0])
    if len(got) != len(exp):
        return fail("yielded %d elements, expected %d" % (len(got), len(exp)))
    for k in range(len(exp)):
        c, i, j = exp[k]
        gc, gp = got[k]
        if gc != c:
            return fail("coordinate differs")
        if op == "sub":
            if gp is not a.payloads[i]:
                return fail("- payload identity")
            continue
        gp = pv(gp)
        if op == "and":
            if gp[0] is not a.payloads[i] or gp[1] is not b.payloads[j]:
                return fail("& payload identity")
            continue
        mask = ("A" if i is not None else "") + ("B" if j is not None else "")
        if gp[0] != mask:
            return fail("mask")
        if i is not None:
            if gp[1] is not a.payloads[i]:
                return fail("a-side identity")
        else:
            d = pv(gp[1])
            if not isinstance(d, Fiber) or len(d.coords) != 0:
                return fail("absent a side is not a fresh empty fiber")
        if j is not None:
            if gp[2] is not b.payloads[j]:
                return fail("b-side identity")
        else:
            d = pv(gp[2])
            if not isinstance(d, Fiber) or len(d.coords) != 0:
                return fail("absent b side is not a fresh empty fiber")
    if raw(a) != sa or raw(b) != sb:
        return fail("an operand tree changed")
    if rank_sizes(ta) != rsa or rank_sizes(tb) != rsb:
        return fail("rank lists of an operand's tensor changed: %s->%s %s->%s" % (rsa, rank_sizes(ta), rsb, rank_sizes(tb)))
    if not mirror(ta) or not mirror(tb):
        return False
    return True


def _interior_params(sa_, sb_):
    ps, pre = [], []
    for tag, sk in (("a", sa_), ("b", sb_)):
        top = names(tag, len(sk))
        ps += top
        pre += chain_pre(top)
        for i, n in enumerate(sk):
            cs = names("%s%dc" % (tag, i), n)
            ps += cs + names("%s%dv" % (tag, i), n)
            pre += chain_pre(cs)
    return ps, pre


def _mk_interior(op, sa_, sb_, budget=None):
    ps, pre = _interior_params(sa_, sb_)
    ob = Ob("%s/interior/%s-%s" % (op, "".join(map(str, sa_)) or "e", "".join(map(str, sb_)) or "e"), "binop_interior",
            dict(op=op, a=sa_, b=sb_), ps, pre, budget=budget)
    # quick-tier counterpart when measured slow: a's coordinates pinned to 0, 2, 4, ... per fiber; b, all values stay symbolic
    pin = {}
    for i, c in enumerate(names("a", len(sa_))):
        pin[c] = 2 * i
    for i, n in enumerate(sa_):
        for j, c in enumerate(names("a%dc" % i, n)):
            pin[c] = 2 * j
    ob.pin = pin
    return ob


# ----------------------------------------------------------------------------- n-ary forms
def _build_leaf_fibers(ns, xs):
    pos = 0
    fibers, cs_all, vs_all = [], [], []
    for n in ns:
        cs = list(xs[pos:pos + n]); vs = list(xs[pos + n:pos + 2 * n]); pos += 2 * n
        fibers.append(Fiber(cs, vs)); cs_all.append(cs); vs_all.append(vs)
    return fibers, cs_all, vs_all


def _find(cs, vs, c):
    """index of present coordinate c in (cs, vs) or None"""
    for i in range(len(cs)):
        if cs[i] == c and vs[i] != 0:
            return i
    return None


def nary(sk, *xs):
    kind, ns = sk["kind"], sk["ns"]
    fs, cs, vs = _build_leaf_fibers(ns, xs)
    snaps = [raw(f) for f in fs]
    k = len(fs)
    if kind == "union":
        z = Fiber.union(*fs)
    elif kind == "intersection":
        z = Fiber.intersection(*fs)
    else:
        z = Fiber.intersection(*fs, style="leader-follower")
    got = [(c, pv(p)) for c, p in z]
    # candidate coordinates: present ones of every operand, duplicate free, ascending
    cand = []
    for f in range(k):
        for i in range(ns[f]):
            if vs[f][i] != 0:
                dup = False
                for c in cand:
                    if c == cs[f][i]:
                        dup = True
                if not dup:
                    cand.append(cs[f][i])
    cand.sort()
    exp = []
    for c in cand:
        idx = [_find(cs[f], vs[f], c) for f in range(k)]
        if kind == "union":
            exp.append((c, idx))
        elif kind == "intersection":
            if all(i is not None for i in idx):
                exp.append((c, idx))
        else:
            if idx[0] is not None:
                exp.append((c, idx))
    if len(got) != len(exp):
        return fail("yielded %d, expected %d" % (len(got), len(exp)))
    for n in range(len(exp)):
        c, idx = exp[n]
        gc, gp = got[n]
        if gc != c:
            return fail("coordinate differs")
        if not isinstance(gp, tuple):
            return fail("payload is not a flat tuple")
        if kind == "union":
            if len(gp) != k + 1:
                return fail("tuple length")
            mask = "".join(chr(ord("A") + f) for f in range(k) if idx[f] is not None)
            if gp[0] != mask:
                return fail("mask %r expected %r" % (gp[0], mask))
            vals = gp[1:]
        else:
            if len(gp) != k:
                return fail("tuple length")
            vals = gp
        for f in range(k):
            if isinstance(vals[f], tuple):
                return fail("payload tuple is nested")
            if idx[f] is not None:
                if vals[f] is not fs[f].payloads[idx[f]]:
                    return fail("operand %d payload is not the stored box" % f)
            else:
                if kind == "lf":
                    # follower: stored payload (possibly an explicit default) or a default
                    if pv(vals[f]) != 0:
                        return fail("absent follower payload is not the default")
                else:
                    if not isinstance(vals[f], Payload) or vals[f].value != 0:
                        return fail("absent side is not a default box")
    # the lazy result can be traversed again with the same outcome (no state left over from the first traversal)
    try:
        got2 = [(c, pv(p)) for c, p in z]
    except AssertionError:
        return fail("second traversal of the same %s result raised" % kind)
    if len(got2) != len(got):
        return fail("second traversal of the same %s result yields %d elements, the first %d" % (kind, len(got2), len(got)))
    for n in range(len(got)):
        if got2[n][0] != got[n][0]:
            return fail("second traversal: coordinate differs")
        v1 = got[n][1][1:] if kind == "union" else got[n][1]
        v2 = got2[n][1][1:] if kind == "union" else got2[n][1]
        for f in range(k):
            if exp[n][1][f] is not None and v1[f] is not v2[f]:
                return fail("second traversal delivers a different payload object for a present operand")
            if pv(v1[f]) != pv(v2[f]):
                return fail("second traversal delivers a different value")
    for f in range(k):
        if raw(fs[f]) != snaps[f]:
            return fail("operand %d changed" % f)
    return True


def nary_interior(sk, *xs):
    """3-ary union / intersection of fibers whose payloads are fibers: flat tuples, the operands' own sub-fibers for present sides, a fresh
    *empty fiber instance* for every absent side"""
    kind = sk["kind"]
    fs = []
    for f in range(3):
        t, c, v = xs[3 * f:3 * f + 3]
        fs.append(Fiber([t], [Fiber([c], [v])]))
    snaps = [raw(f) for f in fs]
    z = Fiber.union(*fs) if kind == "union" else Fiber.intersection(*fs)
    got = [(c, pv(p)) for c, p in z]
    present = [xs[3 * f + 2] != 0 for f in range(3)]
    tops = [xs[3 * f] for f in range(3)]
    cand = []
    for f in range(3):
        if present[f] and not any(tops[f] == c for c in cand):
            cand.append(tops[f])
    cand.sort()
    exp = []
    for c in cand:
        sides = [present[f] and tops[f] == c for f in range(3)]
        if kind == "union" or all(sides):
            exp.append((c, sides))
    if len(got) != len(exp):
        return fail("yielded %d coordinates, expected %d" % (len(got), len(exp)))
    fresh = []
    for n, (c, sides) in enumerate(exp):
        gc, gp = got[n]
        if gc != c or not isinstance(gp, tuple):
            return fail("coordinate / payload tuple")
        vals = gp[1:] if kind == "union" else gp
        if kind == "union":
            mask = "".join(chr(ord("A") + f) for f in range(3) if sides[f])
            if gp[0] != mask:
                return fail("mask %r expected %r" % (gp[0], mask))
        if len(vals) != 3:
            return fail("payload tuple is not flat")
        for f in range(3):
            if sides[f]:
                if vals[f] is not fs[f].payloads[0]:
                    return fail("present side %d is not the operand's own sub-fiber" % f)
            else:
                if not isinstance(vals[f], Fiber) or len(vals[f].coords) != 0:
                    return fail("absent side %d is %r, not a fresh empty fiber" % (f, vals[f]))
                fresh.append(vals[f])
    for i in range(len(fresh)):
        for j in range(i + 1, len(fresh)):
            if fresh[i] is fresh[j]:
                return fail("two absent-side defaults are the same object")
    for f in range(3):
        if raw(fs[f]) != snaps[f]:
            return fail("operand changed")
    return True


def _mk_nary(kind, ns, budget=None):
    ps, pre = [], []
    for f, n in enumerate(ns):
        c = names("f%dc" % f, n)
        ps += c + names("f%dv" % f, n)
        pre += chain_pre(c)
    return Ob("%s/%s" % (kind, "-".join(map(str, ns))), "nary", dict(kind=kind, ns=list(ns)), ps, pre, budget=budget)


# ----------------------------------------------------------------------------- mixed tuple arity
def mixed_arity(sk, *xs):
    """a has integer coordinates, b has 2-tuples; a & b and b & a match on the common prefix."""
    na, nb, flip = sk["na"], sk["nb"], sk["flip"]
    ac, av = list(xs[:na]), list(xs[na:2 * na])
    p = 2 * na
    b0 = list(xs[p:p + nb]); b1 = list(xs[p + nb:p + 2 * nb]); bv = list(xs[p + 2 * nb:p + 3 * nb])
    bc = [(b0[i], b1[i]) for i in range(nb)]
    a = Fiber(ac, av)
    b = Fiber(bc, bv)
    sa, sb = raw(a), raw(b)
    z = (b & a) if flip else (a & b)
    got = [(c, pv(p_)) for c, p_ in z]
    exp = []
    for j in range(nb):
        if bv[j] == 0:
            continue
        for i in range(na):
            if av[i] != 0 and ac[i] == b0[j]:
                exp.append((bc[j], i, j))
    if len(got) != len(exp):
        return fail("yielded %d expected %d" % (len(got), len(exp)))
    for n in range(len(exp)):
        c, i, j = exp[n]
        gc, gp = got[n]
        if not (isinstance(gc, tuple) and len(gc) == 2 and gc[0] == c[0] and gc[1] == c[1]):
            return fail("coordinate differs")
        pa, pb = (gp[1], gp[0]) if flip else (gp[0], gp[1])
        if pa is not a.payloads[i] or pb is not b.payloads[j]:
            return fail("payload identity")
    if raw(a) != sa or raw(b) != sb:
        return fail("operand changed")
    return True


def mixed_arity2(sk, *xs):
    """a has la-tuples (la >= 2), b has (la+1)-tuples: a & b / b & a match on the common prefix and yield the longer coordinate"""
    na, nb, la, flip = sk["na"], sk["nb"], sk["la"], sk["flip"]
    lb = la + 1
    pos = 0
    ac = []
    for i in range(na):
        ac.append(tuple(xs[pos:pos + la])); pos += la
    av = list(xs[pos:pos + na]); pos += na
    bc = []
    for j in range(nb):
        bc.append(tuple(xs[pos:pos + lb])); pos += lb
    bv = list(xs[pos:pos + nb])
    a = Fiber(ac, av)
    b = Fiber(bc, bv)
    z = (b & a) if flip else (a & b)
    got = [(c, pv(p_)) for c, p_ in z]
    exp = []
    for j in range(nb):
        if bv[j] == 0:
            continue
        for i in range(na):
            if av[i] != 0 and ac[i] == bc[j][:la]:
                exp.append((bc[j], i, j))
    if len(got) != len(exp):
        return fail("yielded %d expected %d" % (len(got), len(exp)))
    for n in range(len(exp)):
        c, i, j = exp[n]
        gc, gp = got[n]
        if tuple(gc) != c:
            return fail("coordinate differs")
        pa, pb = (gp[1], gp[0]) if flip else (gp[0], gp[1])
        if pa is not a.payloads[i] or pb is not b.payloads[j]:
            return fail("payload identity")
    return True


def _mk_mixed2(na, nb, la, flip):
    ps, pre = [], []
    an = []
    for i in range(na):
        t = names("a%d_" % i, la)
        an.append(t)
        ps += t
    ps += names("u", na)
    bn = []
    for j in range(nb):
        t = names("b%d_" % j, la + 1)
        bn.append(t)
        ps += t
    ps += names("w", nb)
    for i in range(na - 1):
        pre.append("(%s) < (%s)" % (", ".join(an[i]), ", ".join(an[i + 1])))
    for j in range(nb - 1):
        pre.append("(%s) < (%s)" % (", ".join(bn[j]), ", ".join(bn[j + 1])))
    return Ob("mixed%d%d/%dx%d/%s" % (la, la + 1, na, nb, "ba" if flip else "ab"), "mixed_arity2", dict(na=na, nb=nb, la=la, flip=flip), ps, pre)


def _mk_mixed(na, nb, flip, budget=None):
    a = names("a", na); b0 = names("p", nb); b1 = names("q", nb)
    ps = a + names("u", na) + b0 + b1 + names("w", nb)
    pre = chain_pre(a)
    for i in range(nb - 1):
        pre.append("(%s, %s) < (%s, %s)" % (b0[i], b1[i], b0[i + 1], b1[i + 1]))
    return Ob("mixed/%dx%d/%s" % (na, nb, "ba" if flip else "ab"), "mixed_arity", dict(na=na, nb=nb, flip=flip), ps, pre, budget=budget)


# ----------------------------------------------------------------------------- rank declared uncompressed
def u_rank(sk, lo, span, *xs):
    """a's rank is declared 'U': a presents every coordinate of its active range; b is compressed."""
    na, nb, op = sk["na"], sk["nb"], sk["op"]
    hi = lo + span
    ac, av = list(xs[:na]), list(xs[na:2 * na])
    bc, bv = list(xs[2 * na:2 * na + nb]), list(xs[2 * na + nb:2 * na + 2 * nb])
    a = Fiber(ac, av, active_range=(lo, hi))
    a.getRankAttrs().setFormat("U")
    b = Fiber(bc, bv)
    sa, sb = raw(a), raw(b)
    if op == "lf":
        z = Fiber.intersection(a, b, style="leader-follower")     # the leader's rank is 'U': every coordinate of its active range is a leader coordinate
    else:
        z = (a & b) if op == "and" else (a | b)
    got = [(c, pv(p)) for c, p in z]
    exp = []
    if op == "lf":
        exp = list(range(lo, hi))
    elif op == "and":
        for j in range(nb):
            if bv[j] != 0 and lo <= bc[j] < hi:
                exp.append(bc[j])
    else:
        allc = list(range(lo, hi))
        for j in range(nb):
            if bv[j] != 0 and not (lo <= bc[j] < hi):
                allc.append(bc[j])
        allc.sort()
        exp = allc
    if len(got) != len(exp):
        return fail("yielded %d expected %d" % (len(got), len(exp)))
    for n in range(len(exp)):
        if got[n][0] != exp[n]:
            return fail("coordinate differs")
        gp = got[n][1]
        aval = gp[0] if op in ("and", "lf") else gp[1]
        # the a side shows a's value at that coordinate (stored or default)
        want = 0
        for i in range(na):
            if ac[i] == exp[n]:
                want = av[i]
        if lo <= exp[n] < hi:
            if pv(aval) != want:
                return fail("a-side value differs")
    if raw(a) != sa or raw(b) != sb:
        return fail("operand changed")
    return True


def _mk_u(op, na, nb, maxspan, budget=None):
    a = names("a", na); b = names("b", nb)
    ps = ["lo", "span"] + a + names("u", na) + b + names("w", nb)
    pre = ["0 <= span <= %d" % maxspan] + chain_pre(a) + chain_pre(b) + ["lo <= %s < lo + span" % x for x in a]
    return Ob("urank/%s/%dx%d" % (op, na, nb), "u_rank", dict(op=op, na=na, nb=nb), ps, pre, budget=budget)


def obligations(tier):  # noqa: F811
    obs = []
    q = tier == "quick"
    N = 2 if q else 3
    for op in ("and", "or", "xor", "sub"):
        for na in range(N + 1):
            for nb in range(N + 1):
                obs.append(_mk_binop_leaf(op, na, nb))
    shapes = [([], [1]), ([1], [1]), ([0], [1]), ([1, 0], [1]), ([1], [0, 1]), ([1, 1], [1])]
    if not q:
        shapes += [([2], [1, 1]), ([1, 0], [0, 1]), ([2, 1], [1])]      # ([1,1],[1,1]): 4000+ paths, does not fit the budget - outside the claim
    for op in ("and", "or", "xor", "sub"):
        for sa_, sb_ in shapes:
            obs.append(_mk_interior(op, sa_, sb_))
    tri = [(1, 1, 1), (2, 1, 1), (1, 2, 1), (1, 1, 2), (0, 1, 1), (1, 0, 2), (2, 2, 0)]
    if not q:
        tri += [(2, 2, 1), (2, 1, 2), (1, 2, 2), (3, 1, 1), (1, 1, 1, 1), (2, 1, 1, 0), (1, 0, 1, 2)]      # (2,2,2) does not fit the budget
    for ns in tri:
        for kind in ("union", "intersection", "lf"):
            if kind == "lf" and ns[0] == 0:
                continue
            if kind == "union" and sum(ns) >= 5:
                continue      # 1000+ paths with the second traversal: too close to the budget; the 5-element cases are decided for intersection and leader-follower
            obs.append(_mk_nary(kind, ns))
    for na, nb in ([(0, 1), (1, 0), (1, 1), (1, 2), (2, 2)] if q else [(0, 1), (0, 2), (1, 0), (2, 0), (1, 1), (1, 2), (2, 2), (2, 3), (3, 2)]):
        for flip in (False, True):
            obs.append(_mk_mixed(na, nb, flip))
    for na, nb in ([(1, 1), (1, 2)] if q else [(1, 1), (1, 2), (2, 2)]):
        for flip in (False, True):
            obs.append(_mk_mixed2(na, nb, 2, flip))
    for op in ("and", "or", "lf"):
        for na, nb in ([(0, 1), (1, 1), (1, 2)] if q else [(0, 1), (1, 1), (1, 2), (2, 2)]):
            obs.append(_mk_u(op, na, nb, 3 if q else 4))
    for kind in ("union", "intersection"):
        ps = []
        pre = []
        for f in range(3):
            ps += ["t%d" % f, "c%d" % f, "v%d" % f]
        obs.append(Ob("nary-interior/%s/1-1-1" % kind, "nary_interior", dict(kind=kind), ps, pre))
    return obs
