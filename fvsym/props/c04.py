"""C04 — co-iteration operators compute exactly their coordinate-set truth tables."""
from fvsym.engine import Ob
from fvsym.rt import *  # noqa

BOUNDS = {
    "quick": "binary & | ^ - on leaf fibers with 0..2 stored elements each (all coordinates and values symbolic, value 0 = explicit default); "
             "interior (sub-fiber payload, tensor-owned) operands with up to 2x2 elements; 3-ary union/intersection with <= 4 stored elements in total; "
             "leader-follower with 2+2+1; mixed tuple arity 2 vs 2; 'U' rank over an active range of span <= 3",
    "thorough": "binary operators up to 3x3 (leaf) and 2x2 (interior); 3-ary with <= 6 stored elements, 4-ary with <= 4; mixed arity up to 3 vs 2; 'U' span <= 4",
}
OUTSIDE = "k > 4 operands, more stored elements than the tier bound, non-integer coordinate components, floats"
ASSUMPTIONS = ["A1 integers only", "operands are ordered/unique fibers built by the public constructor (strictly increasing coordinates)"]


def _present_leaf(cs, vs):
    return [i for i in range(len(cs)) if vs[i] != 0]


def binop_leaf(sk, *xs):
    """a OP b over leaf fibers; explicit zeros count as absent; payload identity; operands unchanged."""
    na, nb, op = sk["na"], sk["nb"], sk["op"]
    ac, av = list(xs[:na]), list(xs[na:2 * na])
    bc, bv = list(xs[2 * na:2 * na + nb]), list(xs[2 * na + nb:2 * na + 2 * nb])
    a = Fiber(ac, av)
    b = Fiber(bc, bv)
    sa, sb = raw(a), raw(b)
    pa_store = list(a.payloads)
    pb_store = list(b.payloads)
    if op == "and":
        z = a & b
    elif op == "or":
        z = a | b
    elif op == "xor":
        z = a ^ b
    else:
        z = a - b
    got = [(c, p) for c, p in z]
    # reference: two-finger free, by pairwise comparison on the *present* elements
    ia = _present_leaf(ac, av)
    ib = _present_leaf(bc, bv)
    exp = []  # (coord, index in a or None, index in b or None)
    for i in ia:
        j_match = None
        for j in ib:
            if bc[j] == ac[i]:
                j_match = j
        exp.append((ac[i], i, j_match))
    for j in ib:
        found = False
        for i in ia:
            if ac[i] == bc[j]:
                found = True
        if not found:
            exp.append((bc[j], None, j))
    if op == "and":
        exp = [e for e in exp if e[1] is not None and e[2] is not None]
    elif op == "xor":
        exp = [e for e in exp if e[1] is None or e[2] is None]
    elif op == "sub":
        exp = [e for e in exp if e[1] is not None and e[2] is None]
    exp.sort(key=lambda e: e[0])
    if len(got) != len(exp):
        return fail("yielded %d elements, expected %d" % (len(got), len(exp)))
    for k in range(len(exp)):
        c, i, j = exp[k]
        gc, gp = got[k]
        if op != "sub":
            gp = pv(gp)  # tuple payloads arrive boxed
        if gc != c:
            return fail("coordinate %d differs" % k)
        if op == "and":
            if not (gp[0] is pa_store[i] and gp[1] is pb_store[j]):
                return fail("& did not deliver the operands' stored payloads")
        elif op == "sub":
            if gp is not pa_store[i]:
                return fail("- did not deliver a's stored payload")
        else:
            mask = ("A" if i is not None else "") + ("B" if j is not None else "")
            if gp[0] != mask:
                return fail("mask %r, expected %r" % (gp[0], mask))
            if i is not None:
                if gp[1] is not pa_store[i]:
                    return fail("a-side payload is not the stored one")
            else:
                if not isinstance(gp[1], Payload) or gp[1].value != 0:
                    return fail("absent a side is not a default box")
                for p in pa_store:
                    if gp[1] is p:
                        return fail("absent a side aliases a stored payload")
            if j is not None:
                if gp[2] is not pb_store[j]:
                    return fail("b-side payload is not the stored one")
            else:
                if not isinstance(gp[2], Payload) or gp[2].value != 0:
                    return fail("absent b side is not a default box")
    if raw(a) != sa or raw(b) != sb:
        return fail("an operand changed")
    for k in range(na):
        if a.payloads[k] is not pa_store[k]:
            return fail("a's payload boxes were replaced")
    # the lazy result can be traversed again with the same outcome
    got2 = [(c, p) for c, p in z]
    if len(got2) != len(got):
        return fail("second traversal differs")
    return True


def _mk_binop_leaf(op, na, nb, budget=None):
    ps = names("a", na) + names("u", na) + names("b", nb) + names("w", nb)
    pre = chain_pre(names("a", na)) + chain_pre(names("b", nb))
    return Ob("%s/leaf/%dx%d" % (op, na, nb), "binop_leaf", dict(op=op, na=na, nb=nb), ps, pre, budget=budget)


def obligations(tier):
    obs = []
    N = 2 if tier == "quick" else 3
    for op in ("and", "or", "xor", "sub"):
        for na in range(N + 1):
            for nb in range(N + 1):
                obs.append(_mk_binop_leaf(op, na, nb))
    return obs
