"""Sum-of-products kernels in the library's idiom (&, <<, +=) with several dataflows — shared by C06, C15, C16.

Every kernel returns (dense output as nested lists, output tensor/box, counters) where counters records what the loop bodies
executed: {"mul": n, "update": n, "add": n (updates that hit a non-zero accumulator), "bodies": {rank_id: n}}.
"""
from fvsym.rt import *  # noqa


def mk_tensor(ids, nest, explicit):
    """operand tensor from a dense nest; explicit=True keeps zeros as explicit defaults / all-zero rows as all-default sub-fibers;
    explicit="estimated" builds the canonical tree (zeros dropped) but gives the tensor no shape, so every rank shape is estimated"""
    if explicit == "estimated":
        # plain Fiber constructors without any shape: every fiber's extent is its own largest coordinate + 1, the rank shapes are
        # whatever the tensor works out from the fibers it is given (rows of different widths)
        def build0(n):
            if isinstance(n[0], list):
                cs, ps = [], []
                for i, sub in enumerate(n):
                    g = build0(sub)
                    if g is not None:
                        cs.append(i)
                        ps.append(g)
                return Fiber(cs, ps) if cs else None
            cs = [i for i, v in enumerate(n) if v != 0]
            return Fiber(cs, [n[i] for i in cs]) if cs else None
        f = build0(nest)
        return Tensor.fromFiber(ids, f if f is not None else Fiber([], []))
    if explicit:
        def build(n):
            if isinstance(n[0], list):
                return Fiber(list(range(len(n))), [build(x) for x in n])
            return Fiber(list(range(len(n))), list(n))
        dims = []
        x = nest
        while isinstance(x, list):
            dims.append(len(x))
            x = x[0]
        return Tensor.fromFiber(ids, build(nest), shape=dims)
    return Tensor.fromUncompressed(ids, nest)


class Counter:
    def __init__(self):
        self.mul = 0
        self.update = 0
        self.add = 0
        self.bodies = {}

    def body(self, rank):
        self.bodies[rank] = self.bodies.get(rank, 0) + 1

    def macc(self, z_ref, a_val, b_val):
        """z_ref += a_val * b_val, counting what the library documents it counts"""
        self.mul += 1
        self.update += 1
        if pv(z_ref) != 0:
            self.add += 1
        z_ref += a_val * b_val


def dense1(f, n):
    out = [0] * n
    for c, p in zip(f.coords, f.payloads):
        out[c] = pv(p)
    return out


def dense2(f, n0, n1):
    out = [[0] * n1 for _ in range(n0)]
    for c, p in zip(f.coords, f.payloads):
        for c1, p1 in zip(p.coords, p.payloads):
            out[c][c1] = pv(p1)
    return out


def clean(f):
    """no explicit default leaf and no empty sub-fiber anywhere in the raw tree"""
    for p in f.payloads:
        if isinstance(p, Fiber):
            if len(p.coords) == 0 or not clean(p):
                return False
        elif pv(p) == 0:
            return False
    return True


def isect(a, b, style):
    if style == "lf":
        # leader-follower delivers every leader coordinate; zero products are filtered by the caller
        return Fiber.intersection(a, b, style="leader-follower")
    return a & b


def dot(A, B, variant, style="2f", explicit=False, cnt=None):
    """z = sum_k A_k B_k"""
    cnt = cnt or Counter()
    K = len(A)
    a = mk_tensor(["K"], A, explicit)
    b = mk_tensor(["K"], B, explicit)
    z = Payload(0)
    if variant == "K":
        for k, (a_val, b_val) in isect(a.getRoot(), b.getRoot(), style):
            cnt.body("K")
            if style == "lf" and (pv(a_val) == 0 or pv(b_val) == 0):
                continue
            cnt.macc(z, a_val, b_val)
    else:
        s = int(variant[1:])
        a1 = a.splitUniform(s)
        b1 = b.splitUniform(s)
        for k1, (a_k0, b_k0) in a1.getRoot() & b1.getRoot():
            cnt.body("K.1")
            for k0, (a_val, b_val) in isect(a_k0, b_k0, style):
                cnt.body("K.0")
                if style == "lf" and (pv(a_val) == 0 or pv(b_val) == 0):
                    continue
                cnt.macc(z, a_val, b_val)
    return pv(z), z, cnt


def mv(A, B, variant, style="2f", explicit=False, cnt=None, z0=None):
    """Z_m = sum_k A_mk B_k.  variants: MK, KM, MK1K0/s (K tiled by s), M1M0K/s (M tiled by s)"""
    cnt = cnt or Counter()
    M, K = len(A), len(A[0])
    a = mk_tensor(["M", "K"], A, explicit)
    b = mk_tensor(["K"], B, explicit)
    z = Tensor(rank_ids=["M"], shape=[M])
    if z0:
        for m, v in enumerate(z0):
            if v != 0:
                r = z.getPayloadRef(m)
                r <<= v
    z_m = z.getRoot()

    def leaf(z_ref, a_val, b_val):
        if style == "lf" and (pv(a_val) == 0 or pv(b_val) == 0):
            return
        cnt.macc(z_ref, a_val, b_val)

    if variant == "MK":
        for m, (z_ref, a_k) in z_m << a.getRoot():
            cnt.body("M")
            for k, (a_val, b_val) in isect(a_k, b.getRoot(), style):
                cnt.body("K")
                leaf(z_ref, a_val, b_val)
    elif variant == "MK-ref":
        # the output element is obtained with getPayloadRef instead of being driven by populate
        for m, a_k in a.getRoot():
            cnt.body("M")
            z_ref = z_m.getPayloadRef(m)
            for k, (a_val, b_val) in isect(a_k, b.getRoot(), style):
                cnt.body("K")
                leaf(z_ref, a_val, b_val)
    elif variant == "MK-dense":
        # the reduction rank is walked densely over its shape: absent elements arrive as default boxes and are multiplied like any other
        for m, (z_ref, a_k) in z_m << a.getRoot():
            cnt.body("M")
            for k, (a_val, b_val) in Fiber.coiterRangeShape([a_k, b.getRoot()], 0, K):
                cnt.body("K")
                cnt.macc(z_ref, a_val, b_val)
    elif variant == "KM":
        a2 = a.swizzleRanks(["K", "M"])
        for k, (a_m, b_val) in isect(a2.getRoot(), b.getRoot(), style):
            cnt.body("K")
            if style == "lf" and pv(b_val) == 0:
                continue
            for m, (z_ref, a_val) in z_m << a_m:
                cnt.body("M")
                leaf(z_ref, a_val, b_val)
    elif variant.startswith("MK1K0"):
        s = int(variant.split("/")[1])
        a2 = a.splitUniform(s, depth=1)
        b2 = b.splitUniform(s)
        for m, (z_ref, a_k1) in z_m << a2.getRoot():
            cnt.body("M")
            for k1, (a_k0, b_k0) in a_k1 & b2.getRoot():
                cnt.body("K.1")
                for k0, (a_val, b_val) in isect(a_k0, b_k0, style):
                    cnt.body("K.0")
                    leaf(z_ref, a_val, b_val)
    elif variant.startswith("KM1M0"):
        # M tiled by s, then the loop order rotates three ranks: (M.1, M.0, K) -> (K, M.1, M.0)
        s = int(variant.split("/")[1])
        a2 = a.splitUniform(s).swizzleRanks(["K", "M.1", "M.0"])
        z2 = z.splitUniform(s)
        for k, (a_m1, b_val) in isect(a2.getRoot(), b.getRoot(), style):
            cnt.body("K")
            if style == "lf" and pv(b_val) == 0:
                continue
            for m1, (z_m0, a_m0) in z2.getRoot() << a_m1:
                cnt.body("M.1")
                for m0, (z_ref, a_val) in z_m0 << a_m0:
                    cnt.body("M.0")
                    leaf(z_ref, a_val, b_val)
        out = [0] * M
        for c1, p1 in zip(z2.getRoot().coords, z2.getRoot().payloads):
            for c0, p0 in zip(p1.coords, p1.payloads):
                out[c0] = pv(p0)
        return out, z2, cnt
    elif variant.startswith("M1M0K"):
        s = int(variant.split("/")[1])
        a2 = a.splitUniform(s)
        z2 = z.splitUniform(s)
        z = z2
        for m1, (z_m0, a_m0) in z2.getRoot() << a2.getRoot():
            cnt.body("M.1")
            for m0, (z_ref, a_k) in z_m0 << a_m0:
                cnt.body("M.0")
                for k, (a_val, b_val) in isect(a_k, b.getRoot(), style):
                    cnt.body("K")
                    leaf(z_ref, a_val, b_val)
        out = [0] * M
        for c1, p1 in zip(z2.getRoot().coords, z2.getRoot().payloads):
            for c0, p0 in zip(p1.coords, p1.payloads):
                out[c0] = pv(p0)
        return out, z2, cnt
    else:
        raise KeyError(variant)
    return dense1(z.getRoot(), M), z, cnt


def mm(A, B, variant, style="2f", explicit=False, cnt=None):
    """Z_mn = sum_k A_mk B_kn.  variants: MNK, MKN, KMN, NMK"""
    cnt = cnt or Counter()
    M, K, N = len(A), len(A[0]), len(B[0])
    a = mk_tensor(["M", "K"], A, explicit)
    b = mk_tensor(["K", "N"], B, explicit)
    if variant == "MNK":
        z = Tensor(rank_ids=["M", "N"], shape=[M, N])
        b2 = b.swizzleRanks(["N", "K"])
        for m, (z_n, a_k) in z.getRoot() << a.getRoot():
            cnt.body("M")
            for n, (z_ref, b_k) in z_n << b2.getRoot():
                cnt.body("N")
                for k, (a_val, b_val) in isect(a_k, b_k, style):
                    cnt.body("K")
                    if style == "lf" and (pv(a_val) == 0 or pv(b_val) == 0):
                        continue
                    cnt.macc(z_ref, a_val, b_val)
        return dense2(z.getRoot(), M, N), z, cnt
    if variant == "MKN":
        z = Tensor(rank_ids=["M", "N"], shape=[M, N])
        for m, (z_n, a_k) in z.getRoot() << a.getRoot():
            cnt.body("M")
            for k, (a_val, b_n) in a_k & b.getRoot():
                cnt.body("K")
                for n, (z_ref, b_val) in z_n << b_n:
                    cnt.body("N")
                    cnt.macc(z_ref, a_val, b_val)
        return dense2(z.getRoot(), M, N), z, cnt
    if variant == "KMN":
        z = Tensor(rank_ids=["M", "N"], shape=[M, N])
        a2 = a.swizzleRanks(["K", "M"])
        for k, (a_m, b_n) in a2.getRoot() & b.getRoot():
            cnt.body("K")
            for m, (z_n, a_val) in z.getRoot() << a_m:
                cnt.body("M")
                for n, (z_ref, b_val) in z_n << b_n:
                    cnt.body("N")
                    cnt.macc(z_ref, a_val, b_val)
        return dense2(z.getRoot(), M, N), z, cnt
    if variant == "NMK":
        z = Tensor(rank_ids=["N", "M"], shape=[N, M])
        b2 = b.swizzleRanks(["N", "K"])
        for n, (z_m, b_k) in z.getRoot() << b2.getRoot():
            cnt.body("N")
            for m, (z_ref, a_k) in z_m << a.getRoot():
                cnt.body("M")
                for k, (a_val, b_val) in isect(a_k, b_k, style):
                    cnt.body("K")
                    if style == "lf" and (pv(a_val) == 0 or pv(b_val) == 0):
                        continue
                    cnt.macc(z_ref, a_val, b_val)
        d = dense2(z.getRoot(), N, M)
        return [[d[n][m] for n in range(N)] for m in range(M)], z, cnt
    raise KeyError(variant)


def elementwise(A, B, variant, explicit=False, cnt=None):
    """Z_m = A_m * B_m"""
    cnt = cnt or Counter()
    M = len(A)
    a = mk_tensor(["M"], A, explicit)
    b = mk_tensor(["M"], B, explicit)
    z = Tensor(rank_ids=["M"], shape=[M])
    if variant == "M":
        for m, (z_ref, (a_val, b_val)) in z.getRoot() << (a.getRoot() & b.getRoot()):
            cnt.body("M")
            cnt.mul += 1
            cnt.update += 1
            z_ref <<= a_val * b_val
        return dense1(z.getRoot(), M), z, cnt
    s = int(variant[1:])
    a1, b1, z1 = a.splitUniform(s), b.splitUniform(s), z.splitUniform(s)
    for m1, (z_m0, (a_m0, b_m0)) in z1.getRoot() << (a1.getRoot() & b1.getRoot()):
        cnt.body("M.1")
        for m0, (z_ref, (a_val, b_val)) in z_m0 << (a_m0 & b_m0):
            cnt.body("M.0")
            cnt.mul += 1
            cnt.update += 1
            z_ref <<= a_val * b_val
    out = [0] * M
    for c1, p1 in zip(z1.getRoot().coords, z1.getRoot().payloads):
        for c0, p0 in zip(p1.coords, p1.payloads):
            out[c0] = pv(p0)
    return out, z1, cnt


def reduce_rows(A, variant, explicit=False, cnt=None):
    """variant 'row': Z_m = sum_k A_mk (loop M,K) ; 'col': Z_k = sum_m A_mk (loop M,K populating z_k inside) ; 'colT': via swizzle (loop K,M)"""
    cnt = cnt or Counter()
    M, K = len(A), len(A[0])
    a = mk_tensor(["M", "K"], A, explicit)
    if variant == "row":
        z = Tensor(rank_ids=["M"], shape=[M])
        for m, (z_ref, a_k) in z.getRoot() << a.getRoot():
            cnt.body("M")
            for k, a_val in a_k:
                cnt.body("K")
                cnt.update += 1
                if pv(z_ref) != 0:
                    cnt.add += 1
                z_ref += a_val
        return dense1(z.getRoot(), M), z, cnt
    z = Tensor(rank_ids=["K"], shape=[K])
    if variant == "col":
        for m, a_k in a.getRoot():
            cnt.body("M")
            for k, (z_ref, a_val) in z.getRoot() << a_k:
                cnt.body("K")
                cnt.update += 1
                if pv(z_ref) != 0:
                    cnt.add += 1
                z_ref += a_val
    else:
        a2 = a.swizzleRanks(["K", "M"])
        for k, (z_ref, a_m) in z.getRoot() << a2.getRoot():
            cnt.body("K")
            for m, a_val in a_m:
                cnt.body("M")
                cnt.update += 1
                if pv(z_ref) != 0:
                    cnt.add += 1
                z_ref += a_val
    return dense1(z.getRoot(), K), z, cnt
